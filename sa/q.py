"""Query helpers shared by the rule modules: site discovery and the generic PAIR / DOM / MPT / ORD searches."""

from __future__ import annotations

import ast
from typing import Callable, Iterable

from .cfg import CFG, Edge, Node, Step, reachable, search
from .facts import Facts
from .loader import FuncNode, U, Unit, call_name, calls_in, header_exprs, own_nodes, own_nodes_with_lambdas, parent, stmt_of
from .report import AnalysisError, Ctx


# ------------------------------------------------------------------------------------------------ sites
def recv(c: ast.Call) -> ast.AST | None:
    return c.func.value if isinstance(c.func, ast.Attribute) else None


def calls(u: Unit, name: str | None = None, pred: Callable[[ast.Call], bool] | None = None, lambdas: bool = False) -> list[ast.Call]:
    out = []
    for c in calls_in(u.node, with_lambdas=lambdas):
        if name is not None and call_name(c) != name:
            continue
        if pred is not None and not pred(c):
            continue
        out.append(c)
    return out


def node_exprs(n: Node) -> list[ast.AST]:
    """Expressions evaluated *by this node* (statement header only)."""
    if n.ast is None or n.kind in ('entry', 'exit', 'raise_exit', 'reraise', 'except', 'withexit'):
        return []
    return header_exprs(n.ast)  # type: ignore[arg-type]


def node_calls(n: Node, name: str | None = None) -> list[ast.Call]:
    out: list[ast.Call] = []
    for h in node_exprs(n):
        stack = [h]
        while stack:
            x = stack.pop()
            if isinstance(x, ast.Call) and (name is None or call_name(x) == name):
                out.append(x)
            if isinstance(x, FuncNode + (ast.Lambda, ast.ClassDef)) and x is not h:
                continue
            stack.extend(ast.iter_child_nodes(x))
    return out


def node_has_await(n: Node) -> bool:
    from .loader import contains_await

    if n.kind == 'withexit':
        return isinstance(n.ast, ast.AsyncWith)
    return any(contains_await(h) for h in node_exprs(n)) or (n.kind in ('with', 'for') and isinstance(n.ast, (ast.AsyncWith, ast.AsyncFor)))


def nodes_calling(g: CFG, name: str, pred: Callable[[ast.Call], bool] | None = None) -> list[tuple[Node, ast.Call]]:
    out = []
    for n in g.live_nodes():
        for c in node_calls(n, name):
            if pred is None or pred(c):
                out.append((n, c))
    return out


def distinct_sites(pairs: Iterable[tuple[Node, ast.AST]]) -> list[ast.AST]:
    seen: dict[int, ast.AST] = {}
    for _, c in pairs:
        seen.setdefault(id(c), c)
    return list(seen.values())


def typed_method_calls(ctx: Ctx, method: str, cls: str, units: Iterable[Unit] | None = None) -> list[tuple[Unit, ast.Call]]:
    """Every call ``<expr typed cls>.method(...)`` in the library (receiver resolved by the annotation inferencer)."""
    out = []
    for u in units if units is not None else ctx.prog.units.values():
        if u.module == 'bubus/logging.py':
            continue
        for c in calls_in(u.node, with_lambdas=True):
            if call_name(c) != method or not isinstance(c.func, ast.Attribute):
                continue
            t = ctx.prog.infer(c.func.value, u)
            if t is not None and t.kind == 'cls' and (t.name == cls or _is_subclass(ctx, t.name, cls)):
                out.append((u, c))
    return sorted(out, key=lambda x: (x[0].module, x[1].lineno))


def _is_subclass(ctx: Ctx, a: str, b: str) -> bool:
    seen = set()
    todo = [a]
    while todo:
        c = todo.pop()
        if c == b:
            return True
        if c in seen or c not in ctx.prog.classes:
            continue
        seen.add(c)
        todo.extend(x.split('[')[0].split('.')[-1] for x in ctx.prog.classes[c].bases)
    return False


def attr_chain_endswith(e: ast.AST, *names: str) -> bool:
    """``x.a.b`` ends with names ('a','b')."""
    cur = e
    for nm in reversed(names):
        if isinstance(cur, ast.Attribute) and cur.attr == nm:
            cur = cur.value
        elif isinstance(cur, ast.Name) and cur.id == nm and nm == names[0]:
            return True
        else:
            return False
    return True


def kw(c: ast.Call, name: str) -> ast.AST | None:
    for k in c.keywords:
        if k.arg == name:
            return k.value
    return None


# ------------------------------------------------------------------------------------------------ searches
def is_exit(n: Node) -> bool:
    return n.kind in ('exit', 'raise_exit')


def pair_search(
    g: CFG,
    start: Node,
    is_release: Callable[[Node], bool],
    facts: Facts | None = None,
    env: dict | None = None,
    exc_ok: Callable[[Edge], bool] = lambda e: True,
    exits: Callable[[Node], bool] = is_exit,
) -> list[Step] | None:
    """Witness path from the normal successors of *start* to an exit that avoids every release node (None = paired)."""
    env0 = tuple(sorted((env or {}).items()))

    def edge_ok(n: Node, e: Edge, d: dict):
        if n is start and e.is_exc:
            return None  # the acquire itself failed: nothing to release
        if e.is_exc and not exc_ok(e):
            return None
        if facts is not None:
            return facts.edge_ok(n, e, d)
        return d

    def transfer(n: Node, d: dict):
        return facts.transfer(n, d) if facts is not None else d

    return search(
        [(start, env0)],
        is_target=lambda n, d: exits(n),
        is_barrier=lambda n, d: is_release(n),
        edge_ok=edge_ok,
        transfer=transfer,
    )


def reach_search(
    g: CFG,
    starts: list[tuple[Node, dict]],
    is_target: Callable[[Node, dict], bool],
    is_barrier: Callable[[Node, dict], bool] = lambda n, d: False,
    facts: Facts | None = None,
    exc_ok: Callable[[Edge], bool] = lambda e: True,
    skip_exc_from: Node | None = None,
) -> list[Step] | None:
    def edge_ok(n: Node, e: Edge, d: dict):
        if skip_exc_from is not None and n is skip_exc_from and e.is_exc:
            return None
        if e.is_exc and not exc_ok(e):
            return None
        if facts is not None:
            return facts.edge_ok(n, e, d)
        return d

    def transfer(n: Node, d: dict):
        return facts.transfer(n, d) if facts is not None else d

    return search([(n, tuple(sorted(d.items()))) for n, d in starts], is_target, is_barrier, edge_ok, transfer)


def guard_search(g: CFG, target: Node, guard: str, facts: Facts, env: dict | None = None) -> list[Step] | None:
    """DOM: witness path entry -> *target* on which *guard* (an expression over tracked atoms) is NOT known true."""
    gexpr = ast.parse(guard, mode='eval').body

    from .facts import entails

    def is_target(n: Node, d: dict) -> bool:
        return n is target and facts.eval(gexpr, d) is not True and not entails(d, gexpr)

    def is_barrier(n: Node, d: dict) -> bool:
        return n is target  # reaching the target with the guard known: fine, do not continue through it

    return reach_search(g, [(g.entry, env or {})], is_target, is_barrier, facts)


def normal_only(e: Edge) -> bool:
    return False


def first_on_all_paths(g: CFG, start: Node, is_a: Callable[[Node], bool], is_b: Callable[[Node], bool], facts: Facts | None = None,
                       exc_ok: Callable[[Edge], bool] = lambda e: True) -> list[Step] | None:
    """ORD: witness path from *start* that reaches a B node without passing an A node first (None = A always precedes B)."""
    return reach_search(g, [(start, {})], lambda n, d: is_b(n) and not is_a(n), lambda n, d: is_a(n), facts, exc_ok)


def stmt_text(n: ast.AST, limit: int = 120) -> str:
    s = U(n).split('\n')[0]
    return s if len(s) <= limit else s[: limit - 3] + '...'


def enclosing(node: ast.AST, kinds: tuple[type, ...]) -> ast.AST | None:
    p = parent(node)
    while p is not None and not isinstance(p, FuncNode):
        if isinstance(p, kinds):
            return p
        p = parent(p)
    return None


def lexically_in(node: ast.AST, container: ast.AST, field: str | None = None) -> bool:
    """node is inside container (optionally inside a specific block field such as 'body' / 'finalbody')."""
    if field is None:
        return any(x is node for x in ast.walk(container))
    for st in getattr(container, field, []):
        if any(x is node for x in ast.walk(st)):
            return True
    return False


def ancestors_of(node: ast.AST):
    p = parent(node)
    while p is not None and not isinstance(p, FuncNode):
        yield p
        p = parent(p)


def block_of(st: ast.stmt) -> list[ast.stmt] | None:
    """The statement list that directly contains *st*."""
    p = parent(st)
    if p is None:
        return None
    for f in ('body', 'orelse', 'finalbody'):
        blk = getattr(p, f, None)
        if isinstance(blk, list) and any(x is st for x in blk):
            return blk
    if isinstance(p, ast.Try):
        for h in p.handlers:
            if any(x is st for x in h.body):
                return h.body
    return None


def single_defs(u: Unit) -> dict[str, ast.AST]:
    """Locals of *u* bound exactly once, by a plain `name = value` (never a parameter, loop/with/except target, augmented or deleted): name -> value."""
    stores: dict[str, list[ast.AST]] = {}
    for n in own_nodes(u.node):
        if isinstance(n, ast.Name) and isinstance(n.ctx, (ast.Store, ast.Del)):
            stores.setdefault(n.id, []).append(n)
        elif isinstance(n, ast.ExceptHandler) and n.name:
            stores.setdefault(n.name, []).append(n)
        elif isinstance(n, (ast.Global, ast.Nonlocal)):
            for nm in n.names:
                stores.setdefault(nm, []).extend([n, n])
    params = set(u.params())
    out: dict[str, ast.AST] = {}
    for nm, ss in stores.items():
        if nm in params or len(ss) != 1 or not isinstance(ss[0], ast.Name):
            continue
        st = parent(ss[0])
        if isinstance(st, ast.Assign) and len(st.targets) == 1 and st.targets[0] is ss[0]:
            out[nm] = st.value
        elif isinstance(st, ast.AnnAssign) and st.target is ss[0] and st.value is not None:
            out[nm] = st.value
    return out


def deref(u: Unit, e: ast.AST | None, depth: int = 4) -> ast.AST | None:
    """The expression a single-assignment local stands for (followed through chains of such locals); *e* itself otherwise."""
    defs = None
    while isinstance(e, ast.Name) and depth > 0:
        defs = single_defs(u) if defs is None else defs
        if e.id not in defs:
            break
        e = defs[e.id]
        depth -= 1
    return e


def envs_at(g: CFG, node: Node, facts: Facts, limit: int = 64) -> list[dict]:
    """Distinct fact environments with which *node* can be reached from the entry (normal and exceptional edges)."""
    from collections import deque

    seen = {(g.entry.id, ())}
    dq = deque([(g.entry, ())])
    out: list[dict] = []
    keys = set()
    while dq:
        n, env = dq.popleft()
        if n is node:
            if env not in keys:
                keys.add(env)
                out.append(dict(env))
                if len(out) >= limit:
                    break
            continue
        d_after = facts.transfer(n, dict(env))
        for e in n.succ:
            d2 = facts.edge_ok(n, e, dict(d_after))
            if d2 is None:
                continue
            k = (e.dst.id, tuple(sorted(d2.items())))
            if k not in seen:
                seen.add(k)
                dq.append((e.dst, k[1]))
    return out or [{}]


def unrolled_view(fn: ast.AST, max_elts: int = 6) -> ast.AST:
    """A private copy of function *fn* in which every `for x in (a, b, c): body` over a short literal tuple / list of plain names is replaced
    by body[x:=a]; body[x:=b]; body[x:=c] (only when the body neither rebinds x nor breaks / continues that loop).  Statements of the copy are
    renumbered in execution-text order so that "precedes" comparisons by lineno keep working between the copies; every node keeps its source
    line in `orig_lineno` (used for reports)."""
    import copy

    from .loader import set_parents

    saved = getattr(fn, '_parent', None)
    try:
        if saved is not None:
            fn._parent = None  # type: ignore[attr-defined]
        new = copy.deepcopy(fn)
    finally:
        if saved is not None:
            fn._parent = saved  # type: ignore[attr-defined]
    for n in ast.walk(new):
        if hasattr(n, 'lineno'):
            n.orig_lineno = n.lineno  # type: ignore[attr-defined]

    def loop_level(stmts):
        for st in stmts:
            yield st
            for f in ('body', 'orelse', 'finalbody', 'handlers'):
                sub = getattr(st, f, None)
                if sub and not isinstance(st, (ast.For, ast.AsyncFor, ast.While) + FuncNode + (ast.ClassDef,)):
                    yield from loop_level([x for x in sub if isinstance(x, (ast.stmt, ast.ExceptHandler))])

    class Sub(ast.NodeTransformer):
        def __init__(self, name, repl):
            self.name, self.repl = name, repl

        def visit_Name(self, node):
            if node.id == self.name and isinstance(node.ctx, ast.Load):
                r = copy.deepcopy(self.repl)
                for x in ast.walk(r):
                    if hasattr(node, 'orig_lineno'):
                        x.orig_lineno = node.orig_lineno  # type: ignore[attr-defined]
                return ast.copy_location(r, node)
            return node

    class Unroll(ast.NodeTransformer):
        def visit_For(self, node):
            self.generic_visit(node)
            it = node.iter
            if not (isinstance(it, (ast.Tuple, ast.List)) and 1 <= len(it.elts) <= max_elts and isinstance(node.target, ast.Name) and not node.orelse):
                return node
            if not all(isinstance(e, (ast.Name, ast.Constant)) or (isinstance(e, ast.Attribute) and isinstance(e.value, ast.Name)) for e in it.elts):
                return node
            if any(isinstance(x, (ast.Break, ast.Continue)) for x in loop_level(node.body)):
                return node
            if any(isinstance(x, ast.Name) and x.id == node.target.id and isinstance(x.ctx, (ast.Store, ast.Del)) for b in node.body for x in ast.walk(b)):
                return node
            out = []
            for e in it.elts:
                for st in node.body:
                    out.append(Sub(node.target.id, e).visit(copy.deepcopy(st)))
            return out

    new = Unroll().visit(new)
    counter = [0]

    def renumber(stmts):
        for st in stmts:
            counter[0] += 1
            ln = counter[0]
            nested = []
            for f, v in ast.iter_fields(st):
                if f in ('body', 'orelse', 'finalbody', 'handlers') and isinstance(v, list):
                    nested.append(v)
                    continue
                for x in ([v] if isinstance(v, ast.AST) else [y for y in v if isinstance(y, ast.AST)] if isinstance(v, list) else []):
                    for y in ast.walk(x):
                        if hasattr(y, 'lineno'):
                            y.lineno = ln
                            y.end_lineno = ln
            st.lineno = ln
            st.end_lineno = ln
            for v in nested:
                renumber(v)

    renumber(new.body)
    set_parents(new)
    return new


def comp_view(fn: ast.AST) -> ast.AST:
    """A private copy of *fn* in which the accumulate-in-a-loop idiom is written as the comprehension it is equivalent to:

        X = {} ; for k, v in S.items(): [if C:] X[k] = v          ->  X = {k: v for k, v in S.items() [if C]}
        X = [] ; for v in S: [if C:] X.append(E)                  ->  X = [E for v in S [if C]]
        X = dict(S)                                               ->  X = {k: v for k, v in S.items()}

    (only when the loop body is exactly that one statement, and X is not touched between its initialisation and the loop)."""
    import copy

    from .loader import set_parents

    saved = getattr(fn, '_parent', None)
    try:
        if saved is not None:
            fn._parent = None  # type: ignore[attr-defined]
        new = copy.deepcopy(fn)
    finally:
        if saved is not None:
            fn._parent = saved  # type: ignore[attr-defined]

    def init_of(st: ast.stmt):
        if isinstance(st, ast.Assign) and len(st.targets) == 1 and isinstance(st.targets[0], ast.Name):
            return st.targets[0].id, st.value, st
        if isinstance(st, ast.AnnAssign) and isinstance(st.target, ast.Name) and st.value is not None:
            return st.target.id, st.value, st
        return None

    def set_value(st: ast.stmt, v: ast.expr) -> None:
        st.value = ast.copy_location(v, st.value)  # type: ignore[attr-defined]
        ast.fix_missing_locations(st)

    def rewrite(block: list[ast.stmt]) -> None:
        i = 0
        while i < len(block):
            st = block[i]
            for f in ('body', 'orelse', 'finalbody'):
                b = getattr(st, f, None)
                if isinstance(b, list) and b and isinstance(b[0], ast.stmt) and not isinstance(st, FuncNode + (ast.ClassDef,)):
                    rewrite(b)
            for h in getattr(st, 'handlers', []) or []:
                rewrite(h.body)
            ini = init_of(st)
            if ini is not None:
                name, val, ist = ini
                if isinstance(val, ast.Call) and isinstance(val.func, ast.Name) and val.func.id == 'dict' and len(val.args) == 1 and not val.keywords and isinstance(val.args[0], (ast.Name, ast.Attribute)):
                    k, v = ast.Name(id='__k', ctx=ast.Load()), ast.Name(id='__v', ctx=ast.Load())
                    tgt = ast.Tuple(elts=[ast.Name(id='__k', ctx=ast.Store()), ast.Name(id='__v', ctx=ast.Store())], ctx=ast.Store())
                    it = ast.Call(func=ast.Attribute(value=val.args[0], attr='items', ctx=ast.Load()), args=[], keywords=[])
                    set_value(ist, ast.DictComp(key=k, value=v, generators=[ast.comprehension(target=tgt, iter=it, ifs=[], is_async=0)]))
                elif i + 1 < len(block) and isinstance(block[i + 1], ast.For) and not block[i + 1].orelse and len(block[i + 1].body) == 1:
                    loop = block[i + 1]
                    inner, conds = loop.body[0], []
                    while isinstance(inner, ast.If) and not inner.orelse and len(inner.body) == 1:
                        conds.append(inner.test)
                        inner = inner.body[0]
                    empty_dict = isinstance(val, ast.Dict) and not val.keys
                    empty_list = isinstance(val, ast.List) and not val.elts
                    if empty_dict and isinstance(inner, ast.Assign) and len(inner.targets) == 1 and isinstance(inner.targets[0], ast.Subscript) and isinstance(inner.targets[0].value, ast.Name) \
                            and inner.targets[0].value.id == name:
                        comp = ast.DictComp(key=inner.targets[0].slice, value=inner.value, generators=[ast.comprehension(target=loop.target, iter=loop.iter, ifs=conds, is_async=0)])
                        set_value(ist, comp)
                        del block[i + 1]
                    elif empty_list and isinstance(inner, ast.Expr) and isinstance(inner.value, ast.Call) and isinstance(inner.value.func, ast.Attribute) and inner.value.func.attr == 'append' \
                            and isinstance(inner.value.func.value, ast.Name) and inner.value.func.value.id == name and len(inner.value.args) == 1:
                        comp = ast.ListComp(elt=inner.value.args[0], generators=[ast.comprehension(target=loop.target, iter=loop.iter, ifs=conds, is_async=0)])
                        set_value(ist, comp)
                        del block[i + 1]
            i += 1

    rewrite(new.body)
    set_parents(new)
    return new
