"""Reads of *new* memo attributes are evaluated as misses ("cold cache"), before analysis.

An optimisation that memoises a lookup keeps the answers of an expensive computation in a new attribute (`self._plans[event_type] = plan`,
`self._unhandled.add(event_type)`) and consults it first.  The rules describe the computation; with the memo in front of it they would describe the hit path, which
contains none of it.  If the memo is *coherent* — everything the computation reads invalidates it when it changes — a hit returns what the computation would return,
so analysing the miss path is analysing the function.  Coherence is not assumed: rules/c01.py (C01.13) states it as an obligation of its own, over every writer of
the state the computation reads.  This pass only does the first half:

  a new attribute A of a class (not in sa/known_units.json "attrs") is a *memo* when every write to it anywhere in the library is an initialisation to an empty
  container, a store (`self.A[k] = v`, `self.A.add(k)`, `setdefault`), or an invalidation (`clear`, `pop`, `discard`, `del self.A[k]`, re-initialisation);
  its reads `self.A.get(k)` become `None`, `k in self.A` becomes `False`, `k not in self.A` becomes `True`.

sa/simplify.py then removes the branches that cannot run on a miss.  The stores stay where they are (they are writes to new state only).
"""

from __future__ import annotations

import ast

EMPTY_INITS = ('{}', 'set()', 'dict()', '[]', 'list()', 'WeakValueDictionary()', 'weakref.WeakValueDictionary()', 'defaultdict(list)', 'collections.defaultdict(list)')
STORES = {'add', 'setdefault', 'append', 'update'}
INVALIDATIONS = {'clear', 'pop', 'discard', 'remove', 'popitem'}


def find_memos(trees: list[tuple[str, ast.Module]], known_attrs: dict[str, list[str]] | None) -> dict[str, dict]:
    """attribute name -> {'class': C, 'stores': [...], 'invalidations': [...]} for every new memo attribute."""
    if known_attrs is None:
        return {}
    known = {a for v in known_attrs.values() for a in v}
    cand: dict[str, dict] = {}
    bad: set[str] = set()
    for rel, tree in trees:
        for cls in [n for n in ast.walk(tree) if isinstance(n, ast.ClassDef)]:
            for n in ast.walk(cls):
                # self.A = <empty>  /  class-level  A: T = <empty>
                tgt = val = None
                if isinstance(n, ast.Assign) and len(n.targets) == 1:
                    tgt, val = n.targets[0], n.value
                elif isinstance(n, ast.AnnAssign):
                    tgt, val = n.target, n.value
                if tgt is not None and isinstance(tgt, ast.Attribute) and isinstance(tgt.value, ast.Name) and tgt.value.id == 'self' and tgt.attr not in known:
                    if val is not None and ast.unparse(val) in EMPTY_INITS:
                        cand.setdefault(tgt.attr, {'class': cls.name, 'module': rel, 'stores': [], 'invalidations': [], 'inits': []})['inits'].append(n)
                    elif val is not None:
                        bad.add(tgt.attr)
    if not cand:
        return {}
    for rel, tree in trees:
        for n in ast.walk(tree):
            if isinstance(n, ast.Attribute) and n.attr in cand and isinstance(n.value, ast.Name):
                pass
        for n in ast.walk(tree):
            # stores / invalidations / other uses
            if isinstance(n, ast.Call) and isinstance(n.func, ast.Attribute) and isinstance(n.func.value, ast.Attribute) and n.func.value.attr in cand:
                a = n.func.value.attr
                if n.func.attr in STORES:
                    cand[a]['stores'].append(n)
                elif n.func.attr in INVALIDATIONS:
                    cand[a]['invalidations'].append(n)
                elif n.func.attr in ('get', 'keys', 'values', 'items', 'copy', '__contains__', '__len__'):
                    pass
                else:
                    bad.add(a)
            elif isinstance(n, (ast.Assign, ast.AugAssign)):
                for t in (n.targets if isinstance(n, ast.Assign) else [n.target]):
                    if isinstance(t, ast.Subscript) and isinstance(t.value, ast.Attribute) and t.value.attr in cand:
                        cand[t.value.attr]['stores'].append(n)
            elif isinstance(n, ast.Delete):
                for t in n.targets:
                    if isinstance(t, ast.Subscript) and isinstance(t.value, ast.Attribute) and t.value.attr in cand:
                        cand[t.value.attr]['invalidations'].append(n)
    return {a: d for a, d in cand.items() if a not in bad and d['stores']}


class _ColdReads(ast.NodeTransformer):
    def __init__(self, memos: dict[str, dict]):
        self.memos = memos
        self.n = 0

    def visit_Call(self, node: ast.Call):
        self.generic_visit(node)
        f = node.func
        if isinstance(f, ast.Attribute) and f.attr == 'get' and isinstance(f.value, ast.Attribute) and f.value.attr in self.memos and 1 <= len(node.args) <= 2 and not node.keywords:
            self.n += 1
            return ast.copy_location(node.args[1] if len(node.args) == 2 else ast.Constant(value=None), node)
        return node

    def visit_Compare(self, node: ast.Compare):
        self.generic_visit(node)
        if len(node.ops) == 1 and isinstance(node.ops[0], (ast.In, ast.NotIn)) and isinstance(node.comparators[0], ast.Attribute) and node.comparators[0].attr in self.memos:
            self.n += 1
            return ast.copy_location(ast.Constant(value=isinstance(node.ops[0], ast.NotIn)), node)
        return node


def _record_hit_tests(trees: list[tuple[str, ast.Module]], memos: dict[str, dict]) -> None:
    """Before the reads are rewritten: the texts of the tests that decide between hit and miss (they say what a hit requires, e.g. a version stamp that still matches)."""
    for a in memos:
        memos[a]['hit_tests'] = []
    for _rel, tree in trees:
        for fn in [n for n in ast.walk(tree) if isinstance(n, (ast.FunctionDef, ast.AsyncFunctionDef))]:
            held: dict[str, str] = {}
            for n in ast.walk(fn):
                if isinstance(n, ast.Assign) and len(n.targets) == 1 and isinstance(n.targets[0], ast.Name):
                    for x in ast.walk(n.value):
                        if isinstance(x, ast.Attribute) and x.attr in memos:
                            held[n.targets[0].id] = x.attr
            for n in ast.walk(fn):
                if isinstance(n, ast.If):
                    txt = ast.unparse(n.test)
                    for x in ast.walk(n.test):
                        if isinstance(x, ast.Attribute) and x.attr in memos:
                            memos[x.attr]['hit_tests'].append(txt)
                        elif isinstance(x, ast.Name) and x.id in held:
                            memos[held[x.id]]['hit_tests'].append(txt)


def read_memos_cold(trees: list[tuple[str, ast.Module]], known_attrs: dict[str, list[str]] | None) -> tuple[dict[str, dict], list[str]]:
    memos = find_memos(trees, known_attrs)
    log: list[str] = []
    if not memos:
        return {}, log
    _record_hit_tests(trees, memos)
    for rel, tree in trees:
        tr = _ColdReads(memos)
        tr.visit(tree)
        if tr.n:
            ast.fix_missing_locations(tree)
            log.append(f'{rel}: {tr.n} read(s) of new memo attribute(s) {sorted(memos)} evaluated as misses (coherence is obligation C01.13)')
    return memos, log
