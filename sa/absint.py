"""A tiny abstract evaluator for the few *finite case splits* in the library (registry key derivation in
``EventBus.on`` / ``expect``, ``_get_semaphore_key``, the retry wait formula).

It evaluates straight-line code with decidable ``if`` tests over symbolic inputs (a literal string, an
identifier string, a class object, an instance) — source is interpreted abstractly, never executed.
Anything it cannot evaluate becomes UNKNOWN; a rule that needs a value which came out UNKNOWN reports
"undecided" (exit 2), never a violation.
"""

from __future__ import annotations

import ast
from dataclasses import dataclass
from typing import Any, Callable


class _Unknown:
    def __repr__(self) -> str:
        return 'UNKNOWN'


UNKNOWN = _Unknown()


@dataclass(frozen=True)
class Cls:
    """A class object (e.g. a BaseEvent subclass)."""

    name: str
    bases: tuple[str, ...] = ('BaseEvent',)
    fields: tuple[tuple[str, Any], ...] = ()  # pydantic model fields with their class-level defaults: cls.model_fields[name].default


@dataclass(frozen=True)
class Obj:
    """An instance of some class, with identity *ident*."""

    cls: str
    ident: str


class Rec(dict):
    """A record value: attribute reads are looked up in the dict (missing -> UNKNOWN)."""

    def __hash__(self) -> int:  # type: ignore[override]
        return id(self)


class StrEnumMember(str):
    """A member of `class Names(str, Enum)`: equal to (and hashing like) its value, but str() gives 'Names.MEMBER'."""

    def __new__(cls, value: str, shown: str):
        o = super().__new__(cls, value)
        o.shown = shown  # type: ignore[attr-defined]
        return o

    def __str__(self) -> str:
        return self.shown  # type: ignore[attr-defined]


@dataclass(frozen=True)
class IdOf:
    of: Any


@dataclass(frozen=True)
class Sym:
    """An opaque symbolic value with a name (numbers in formulas etc.)."""

    name: str


_NO = object()


class AbsInt:
    def __init__(self, on_stmt: Callable[[ast.stmt, dict], None] | None = None, calls: dict[str, Callable[..., Any]] | None = None, program: Any = None, module: str | None = None,
                 depth: int = 0):
        self.on_stmt = on_stmt
        self.calls = calls or {}
        self.program = program  # sa.loader.Program: lets small helpers of the library (and NamedTuple records) be evaluated instead of answering UNKNOWN
        self.module = module
        self.depth = depth
        self.raised: list[ast.Raise] = []
        self.raised_values: list[Any] = []  # what each of them raises (UNKNOWN when not decided)
        self.undecided: list[ast.AST] = []  # `if` tests that evaluated to UNKNOWN (both branches were followed)
        self.returns: list[Any] = []

    # ------------------------------------------------------------------ expressions
    def ev(self, e: ast.AST, env: dict) -> Any:
        if isinstance(e, ast.Constant):
            return e.value
        if isinstance(e, ast.Name):
            return env.get(e.id, UNKNOWN)
        if isinstance(e, ast.JoinedStr):
            parts = []
            for v in e.values:
                if isinstance(v, ast.Constant):
                    parts.append(str(v.value))
                elif isinstance(v, ast.FormattedValue):
                    x = self.ev(v.value, env)
                    if x is UNKNOWN:
                        return UNKNOWN
                    parts.append(self._str(x))
            if any(p is UNKNOWN for p in parts):
                return UNKNOWN
            return ''.join(parts)
        if isinstance(e, ast.Attribute):
            b = self.ev(e.value, env)
            if b is UNKNOWN:
                return UNKNOWN
            if isinstance(b, Rec):
                return b.get(e.attr, UNKNOWN)
            if e.attr == '__name__' and isinstance(b, Cls):
                return b.name
            if e.attr == 'model_fields' and isinstance(b, Cls) and b.fields:
                return {k: Rec(default=v) for k, v in b.fields}
            if e.attr == '__class__' and isinstance(b, Obj):
                return Cls(b.cls, ())
            if e.attr == '__class__' and isinstance(b, (str, Cls)):
                return Cls('str' if isinstance(b, str) else 'type', ())
            return UNKNOWN
        if isinstance(e, ast.Subscript) and isinstance(e.slice, ast.Slice):
            b = self.ev(e.value, env)
            lo, hi, stp = (None if x is None else self.ev(x, env) for x in (e.slice.lower, e.slice.upper, e.slice.step))
            if isinstance(b, (tuple, list, str)) and all(x is None or (isinstance(x, int) and not isinstance(x, bool)) for x in (lo, hi, stp)) and stp != 0:
                return b[lo:hi:stp]
            return UNKNOWN
        if isinstance(e, ast.Subscript):
            b = self.ev(e.value, env)
            i = self.ev(e.slice, env)
            if isinstance(b, (tuple, list)) and isinstance(i, int) and -len(b) <= i < len(b):
                return b[i]
            if isinstance(b, dict) and not isinstance(b, Rec) and i is not UNKNOWN:
                try:
                    return b.get(i, UNKNOWN)
                except TypeError:
                    return UNKNOWN
            return UNKNOWN
        if isinstance(e, ast.Tuple):
            return tuple(self.ev(x, env) for x in e.elts)
        if isinstance(e, ast.UnaryOp) and isinstance(e.op, ast.Not):
            t = self.truth(self.ev(e.operand, env))
            return UNKNOWN if t is None else (not t)
        if isinstance(e, ast.UnaryOp) and isinstance(e.op, ast.USub):
            v = self.ev(e.operand, env)
            return -v if isinstance(v, (int, float)) and not isinstance(v, bool) else UNKNOWN
        if isinstance(e, ast.BoolOp):
            last: Any = UNKNOWN
            for v in e.values:
                last = self.ev(v, env)
                t = self.truth(last)
                if t is None:
                    return UNKNOWN
                if isinstance(e.op, ast.And) and not t:
                    return last
                if isinstance(e.op, ast.Or) and t:
                    return last
            return last
        if isinstance(e, ast.IfExp):
            t = self.truth(self.ev(e.test, env))
            if t is None:
                a, b = self.ev(e.body, env), self.ev(e.orelse, env)
                return a if a == b and a is not UNKNOWN else UNKNOWN
            return self.ev(e.body if t else e.orelse, env)
        if isinstance(e, ast.Compare) and len(e.ops) == 1:
            a, b = self.ev(e.left, env), self.ev(e.comparators[0], env)
            if a is UNKNOWN or b is UNKNOWN:
                return UNKNOWN
            op = e.ops[0]
            if isinstance(op, ast.Eq):
                return self._eq(a, b)
            if isinstance(op, ast.NotEq):
                r = self._eq(a, b)
                return UNKNOWN if r is UNKNOWN else (not r)
            if isinstance(op, ast.Is):
                return a is b if (a is None or b is None) else self._eq(a, b)
            if isinstance(op, ast.IsNot):
                return (a is not b) if (a is None or b is None) else (not self._eq(a, b))
            if isinstance(op, (ast.Lt, ast.LtE, ast.Gt, ast.GtE)) and all(isinstance(x, (int, float)) and not isinstance(x, bool) for x in (a, b)):
                return {ast.Lt: a < b, ast.LtE: a <= b, ast.Gt: a > b, ast.GtE: a >= b}[type(op)]
            if isinstance(op, (ast.In, ast.NotIn)) and isinstance(b, (dict, list, tuple, set, str)) and not isinstance(b, Rec):
                try:
                    r = a in b
                except TypeError:
                    return UNKNOWN
                return r if isinstance(op, ast.In) else (not r)
            return UNKNOWN
        if isinstance(e, (ast.ListComp, ast.GeneratorExp, ast.SetComp)):
            items = self._comp(e, env)
            if items is UNKNOWN:
                return UNKNOWN
            if isinstance(e, ast.SetComp):
                try:
                    return set(items)
                except TypeError:
                    return UNKNOWN
            return items
        if isinstance(e, ast.List):
            return [self.ev(x, env) for x in e.elts]
        if isinstance(e, ast.Call):
            return self.call(e, env)
        return UNKNOWN

    def _comp(self, e: ast.AST, env: dict) -> Any:
        """The elements of a comprehension over concrete iterables (a list; UNKNOWN if an iterable, a filter or a target shape is not decided)."""
        out: list = []

        def go(k: int, env_: dict) -> bool:
            if k == len(e.generators):  # type: ignore[attr-defined]
                out.append(self.ev(e.elt, env_))  # type: ignore[attr-defined]
                return True
            gen = e.generators[k]  # type: ignore[attr-defined]
            it = self.ev(gen.iter, env_)
            if gen.is_async or not isinstance(it, (list, tuple)) or len(it) > 16:
                return False
            for x in it:
                e2 = dict(env_)
                if isinstance(gen.target, ast.Name):
                    e2[gen.target.id] = x
                elif isinstance(gen.target, ast.Tuple) and isinstance(x, tuple) and len(x) == len(gen.target.elts) and all(isinstance(t, ast.Name) for t in gen.target.elts):
                    for t, v in zip(gen.target.elts, x):
                        e2[t.id] = v  # type: ignore[attr-defined]
                else:
                    return False
                keep = True
                for cond in gen.ifs:
                    t = self.truth(self.ev(cond, e2))
                    if t is None:
                        return False
                    if not t:
                        keep = False
                        break
                if keep and not go(k + 1, e2):
                    return False
            return True

        return out if go(0, env) else UNKNOWN

    def _eq(self, a: Any, b: Any) -> Any:
        if isinstance(a, Sym) or isinstance(b, Sym):
            return UNKNOWN if a != b else True
        return a == b

    def _str(self, x: Any) -> Any:
        if isinstance(x, str):
            return x if type(x) is str else type(x).__str__(x)  # a str subclass may print differently from its value (a `(str, Enum)` member)
        if isinstance(x, Cls):
            return f"<class '{x.name}'>"
        if isinstance(x, IdOf):
            return f'<id:{x.of}>'
        if isinstance(x, Obj):
            return f'<{x.cls} object {x.ident}>'
        if isinstance(x, (int, float, bool)) or x is None:
            return str(x)
        return UNKNOWN

    def truth(self, v: Any) -> bool | None:
        if v is UNKNOWN or isinstance(v, Sym):
            return None
        if isinstance(v, (Cls, Obj, IdOf)):
            return True
        try:
            return bool(v)
        except Exception:
            return None

    def call(self, c: ast.Call, env: dict) -> Any:
        f = c.func
        name = f.id if isinstance(f, ast.Name) else None
        args = [self.ev(a, env) for a in c.args]
        dotted = ast.unparse(f)
        if dotted in self.calls:
            return self.calls[dotted](*args)
        if isinstance(f, ast.Attribute) and ('.' + f.attr) in self.calls:
            return self.calls['.' + f.attr](self.ev(f.value, env), *args)
        if isinstance(f, ast.Attribute) and f.attr == 'get' and 1 <= len(args) <= 2 and not c.keywords:
            recv = self.ev(f.value, env)
            if type(recv) is dict and args[0] is not UNKNOWN:
                try:
                    return recv.get(args[0], args[1] if len(args) == 2 else None)
                except TypeError:
                    return UNKNOWN
        if name in ('any', 'all') and len(args) == 1 and not c.keywords and isinstance(args[0], (list, tuple)):
            ts = [self.truth(x) for x in args[0]]
            if name == 'any':
                return True if any(t is True for t in ts) else (UNKNOWN if any(t is None for t in ts) else False)
            return False if any(t is False for t in ts) else (UNKNOWN if any(t is None for t in ts) else True)
        if isinstance(f, ast.Attribute) and f.attr in ('items', 'values', 'keys') and not args and not c.keywords:
            recv = self.ev(f.value, env)
            if type(recv) is dict:
                return list(recv.items()) if f.attr == 'items' else list(recv.values()) if f.attr == 'values' else list(recv.keys())
        if isinstance(f, ast.Attribute) and f.attr == 'popitem' and not args and not c.keywords and isinstance(f.value, ast.Name) and type(env.get(f.value.id)) is dict and env[f.value.id]:
            d_ = dict(env[f.value.id])
            item = d_.popitem()  # dict.popitem(): the entry added last
            env[f.value.id] = d_
            return item
        if name == 'next' and len(c.args) == 1 and isinstance(c.args[0], ast.Call) and isinstance(c.args[0].func, ast.Name) and c.args[0].func.id == 'iter' and len(c.args[0].args) == 1:
            seq = self.ev(c.args[0].args[0], env)  # next(iter(X)): the first element of X
            if type(seq) is dict:
                seq = list(seq.keys())
            if isinstance(seq, (list, tuple)) and seq:
                return seq[0]
            return UNKNOWN
        if name == 'cast' and len(args) == 2 and not c.keywords:
            return args[1]
        if name in ('list', 'tuple') and len(args) == 1 and not c.keywords and type(args[0]) is dict:
            return list(args[0].keys()) if name == 'list' else tuple(args[0].keys())
        if name in ('list', 'tuple') and len(args) == 1 and not c.keywords and isinstance(args[0], (list, tuple)):
            return list(args[0]) if name == 'list' else tuple(args[0])
        if name == 'len' and len(args) == 1 and not c.keywords and isinstance(args[0], (list, tuple, str, set)) and all(x is not UNKNOWN for x in (args[0] if not isinstance(args[0], str) else ())):
            return len(args[0])
        if name == 'getattr' and 2 <= len(args) <= 3 and isinstance(args[1], str) and args[0] is not UNKNOWN:
            if isinstance(args[0], Rec):
                if args[1] in args[0]:
                    return args[0][args[1]]
                return args[2] if len(args) == 3 else UNKNOWN
            if isinstance(args[0], (Obj, str, int, float)) and len(args) == 3 and args[1] in ('__self__', '__func__'):
                return args[2]  # plain functions / values have no bound receiver
        if isinstance(f, ast.Attribute) and f.attr == 'join' and len(args) == 1:
            sep = self.ev(f.value, env)
            if isinstance(sep, str) and isinstance(args[0], (list, tuple)) and all(isinstance(x, str) for x in args[0]):
                return sep.join(args[0])
        if dotted == 'str.__str__' and len(args) == 1 and isinstance(args[0], str):
            return str.__str__(args[0])  # the string's own value, whatever its subclass prints
        if name == 'str' and len(args) == 1:
            return self._str(args[0]) if args[0] is not UNKNOWN else UNKNOWN
        if name == 'id' and len(args) == 1 and args[0] is not UNKNOWN:
            return IdOf(args[0])
        if name == 'type' and len(args) == 1 and isinstance(args[0], Obj):
            return Cls(args[0].cls, ())
        if name == 'hasattr' and len(args) == 2 and args[0] is not UNKNOWN:
            return True if args[1] in ('__class__', '__name__') and (args[1] == '__class__' or isinstance(args[0], Cls)) else UNKNOWN
        if name == 'isinstance' and len(c.args) == 2 and args[0] is not UNKNOWN:
            kinds = [ast.unparse(x) for x in (c.args[1].elts if isinstance(c.args[1], ast.Tuple) else [c.args[1]])]
            res = False
            for k in kinds:
                if k == 'str':
                    res = res or isinstance(args[0], str)
                elif k == 'type':
                    res = res or isinstance(args[0], Cls)
                else:
                    return UNKNOWN
            return res
        if name == 'issubclass' and len(c.args) == 2 and args[0] is not UNKNOWN:
            if isinstance(args[0], Cls):
                return ast.unparse(c.args[1]) in args[0].bases or UNKNOWN
            return UNKNOWN
        r = self._call_library(c, f, name, args, env)
        if r is not _NO:
            return r
        return UNKNOWN

    def _call_library(self, c: ast.Call, f: ast.AST, name: str | None, args: list, env: dict) -> Any:
        """A call of a small function / method / NamedTuple class defined in the library: evaluated (bounded depth) instead of unknown."""
        prog = self.program
        if prog is None or self.depth >= 3 or c.keywords and any(k.arg is None for k in c.keywords):
            return _NO
        kwargs = {k.arg: self.ev(k.value, env) for k in c.keywords}
        # NamedTuple record: Cls(a, b, c) -> Rec with the declared field order
        cname = name if name else (f.attr if isinstance(f, ast.Attribute) else None)
        ci = getattr(prog, 'classes', {}).get(cname) if cname else None
        if ci is not None and any(ast.unparse(b).split('.')[-1] == 'NamedTuple' for b in ci.node.bases):
            fields = [st.target.id for st in ci.node.body if isinstance(st, ast.AnnAssign) and isinstance(st.target, ast.Name)]
            vals = dict(zip(fields, args))
            vals.update(kwargs)
            if set(vals) == set(fields):
                rec = Rec(**vals)
                rec['_order'] = tuple(fields)
                return rec
            return _NO
        target = None
        recv = None
        if isinstance(f, ast.Attribute):
            recv = self.ev(f.value, env)
            cls_name = recv.cls if isinstance(recv, Obj) else (recv.get('_cls') if isinstance(recv, Rec) else None)
            if cls_name:
                target = prog.method(cls_name, f.attr) if hasattr(prog, 'method') else None
        elif name and self.module:
            mi = prog.modules.get(self.module)
            target = mi.functions.get(name) if mi is not None and hasattr(mi, 'functions') else None
        if target is None:
            return _NO
        fn = target.node
        body = [st for st in fn.body if not (isinstance(st, ast.Expr) and isinstance(st.value, ast.Constant))]
        if len(list(ast.walk(fn))) > 400 or isinstance(fn, ast.AsyncFunctionDef) or any(isinstance(x, (ast.For, ast.While, ast.Yield, ast.Await)) for x in ast.walk(fn)):
            return _NO
        params = [a.arg for a in fn.args.posonlyargs + fn.args.args]
        decos = [ast.unparse(d) for d in fn.decorator_list]
        sub_env: dict = {}
        if target.cls and 'staticmethod' not in decos and params:
            sub_env[params[0]] = recv
            params = params[1:]
        for p_, v in zip(params, args):
            sub_env[p_] = v
        sub_env.update(kwargs)
        defaults = dict(zip([a.arg for a in (fn.args.posonlyargs + fn.args.args)][-len(fn.args.defaults):], fn.args.defaults)) if fn.args.defaults else {}
        for p_ in params:
            if p_ not in sub_env and p_ in defaults and isinstance(defaults[p_], ast.Constant):
                sub_env[p_] = defaults[p_].value
        sub = AbsInt(calls=self.calls, program=prog, module=target.module, depth=self.depth + 1)
        end = sub.run(body, sub_env)
        if sub.undecided or sub.raised:
            return _NO
        rets = list(sub.returns) + ([None] if end is not None else [])
        if len(rets) == 1:
            return rets[0]
        return _NO

    # ------------------------------------------------------------------ statements
    def run(self, stmts: list[ast.stmt], env: dict) -> dict | None:
        """Execute; returns env at fall-through or None if every path returned/raised."""
        for st in stmts:
            if self.on_stmt is not None:
                self.on_stmt(st, env)
            if isinstance(st, ast.If):
                t = self.truth(self.ev(st.test, env))
                if t is None:
                    self.undecided.append(st.test)
                    e1 = self.run(st.body, dict(env))
                    e2 = self.run(st.orelse, dict(env))
                    if e1 is None and e2 is None:
                        return None
                    if e1 is None or e2 is None:
                        env = e1 if e2 is None else e2  # type: ignore[assignment]
                    else:
                        env = {k: (e1[k] if k in e1 and k in e2 and e1[k] == e2[k] else UNKNOWN) for k in set(e1) | set(e2)}
                else:
                    r = self.run(st.body if t else st.orelse, env)
                    if r is None:
                        return None
                    env = r
            elif isinstance(st, (ast.Assign, ast.AnnAssign)):
                if isinstance(st, ast.AnnAssign) and st.value is None:
                    continue
                v = self.ev(st.value, env)  # type: ignore[arg-type]
                targets = st.targets if isinstance(st, ast.Assign) else [st.target]
                for t in targets:
                    if isinstance(t, ast.Name):
                        env[t.id] = v
                    elif isinstance(t, ast.Subscript) and isinstance(t.value, ast.Name) and type(env.get(t.value.id)) is dict:
                        k = self.ev(t.slice, env)
                        if k is UNKNOWN:
                            env[t.value.id] = UNKNOWN
                        else:
                            env[t.value.id] = {**env[t.value.id], k: v}
                    elif isinstance(t, ast.Tuple):
                        for i, tt in enumerate(t.elts):
                            if isinstance(tt, ast.Name):
                                if isinstance(v, Rec) and '_order' in v and i < len(v['_order']):
                                    env[tt.id] = v[v['_order'][i]]
                                else:
                                    env[tt.id] = v[i] if isinstance(v, tuple) and i < len(v) else UNKNOWN
            elif isinstance(st, ast.AugAssign):
                if isinstance(st.target, ast.Name):
                    cur, rhs = env.get(st.target.id, UNKNOWN), self.ev(st.value, env)
                    if isinstance(st.op, (ast.Add, ast.Sub)) and type(cur) is int and type(rhs) is int:
                        env[st.target.id] = cur + rhs if isinstance(st.op, ast.Add) else cur - rhs  # counters
                    else:
                        env[st.target.id] = UNKNOWN
            elif isinstance(st, ast.Return):
                self.returns.append(self.ev(st.value, env) if st.value is not None else None)
                return None
            elif isinstance(st, ast.Raise):
                self.raised.append(st)
                self.raised_values.append(self.ev(st.exc, env) if st.exc is not None else UNKNOWN)
                return None
            elif isinstance(st, ast.For) and not st.orelse and isinstance(self.ev(st.iter, env), (list, tuple)) and len(self.ev(st.iter, env)) <= 8 \
                    and not any(isinstance(x, (ast.Break, ast.Continue)) for x in ast.walk(st)) and isinstance(st.target, (ast.Name, ast.Tuple)):
                # a loop over a known, short sequence: one pass of the body per element
                for x in list(self.ev(st.iter, env)):
                    if isinstance(st.target, ast.Name):
                        env[st.target.id] = x
                    else:
                        for i, tt in enumerate(st.target.elts):
                            if isinstance(tt, ast.Name):
                                env[tt.id] = x[i] if isinstance(x, tuple) and i < len(x) else UNKNOWN
                    r = self.run(st.body, env)
                    if r is None:
                        return None
                    env = r
            elif isinstance(st, (ast.For, ast.AsyncFor, ast.While)):
                for n in ast.walk(st):
                    if isinstance(n, ast.Name) and isinstance(n.ctx, ast.Store):
                        env[n.id] = UNKNOWN
            elif isinstance(st, ast.Try):
                r = self.run(st.body, env)
                if r is None:
                    if st.finalbody:
                        self.run(st.finalbody, dict(env))
                    return None
                env = r
                if st.finalbody:
                    r = self.run(st.finalbody, env)
                    if r is None:
                        return None
                    env = r
            elif isinstance(st, (ast.With, ast.AsyncWith)):
                r = self.run(st.body, env)
                if r is None:
                    return None
                env = r
            # Expr / Assert / Pass / def: no effect on tracked names
        return env
