"""Normal form for counting loops, before analysis.

`for k in range(a, b): body` (a != 0, unit step) is rewritten to the zero-based loop `for k in range(b - a): body[k := k + a]`, locals that are
plain linear abbreviations used by the loop (`total = retries + 1`) are written out, and every comparison / arithmetic expression over the
loop index that is linear is simplified: `k + 1 == retries + 1` becomes `not k < retries`, `(k + 1) - 1` becomes `k`.  Inside the loop
`0 <= k < stop` holds, so `k == stop - 1` and `not k < stop - 1` are the same test; the comparisons are normalised towards `k < <bound>`.
A 1-based spelling of a retry loop and the 0-based one therefore look the same to the rules.  Anything that is not linear is left alone.
"""

from __future__ import annotations

import ast
import copy

FuncNode = (ast.FunctionDef, ast.AsyncFunctionDef)
Lin = dict  # symbol (str) or 1 (the constant term) -> integer coefficient


def lin(e: ast.AST, defs: dict[str, ast.AST], depth: int = 0) -> Lin | None:
    if isinstance(e, ast.Constant) and isinstance(e.value, int) and not isinstance(e.value, bool):
        return {1: e.value}
    if isinstance(e, ast.Name):
        if e.id in defs and depth < 4:
            r = lin(defs[e.id], defs, depth + 1)
            if r is not None:
                return r
        return {e.id: 1}
    if isinstance(e, (ast.Attribute, ast.Call, ast.Subscript)):
        return {ast.unparse(e): 1}  # an opaque term: the same text is the same quantity within one test
    if isinstance(e, ast.UnaryOp) and isinstance(e.op, ast.USub):
        r = lin(e.operand, defs, depth)
        return None if r is None else {k: -v for k, v in r.items()}
    if isinstance(e, ast.BinOp) and isinstance(e.op, (ast.Add, ast.Sub)):
        a, b = lin(e.left, defs, depth), lin(e.right, defs, depth)
        if a is None or b is None:
            return None
        out = dict(a)
        s = 1 if isinstance(e.op, ast.Add) else -1
        for k, v in b.items():
            out[k] = out.get(k, 0) + s * v
        return {k: v for k, v in out.items() if v != 0}
    if isinstance(e, ast.BinOp) and isinstance(e.op, ast.Mult):
        a, b = lin(e.left, defs, depth), lin(e.right, defs, depth)
        if a is None or b is None:
            return None
        for x, y in ((a, b), (b, a)):
            if set(x) <= {1}:
                c = x.get(1, 0)
                return {k: v * c for k, v in y.items() if v * c != 0}
        return None
    return None


def unlin(l: Lin) -> ast.expr:
    terms: list[tuple[int, ast.expr | None]] = []
    for k in sorted((x for x in l if x != 1), key=str):
        terms.append((l[k], ast.Name(id=k, ctx=ast.Load())))
    if l.get(1, 0) != 0 or not terms:
        terms.append((l.get(1, 0), None))
    out: ast.expr | None = None
    for coef, sym in terms:
        mag = abs(coef)
        t: ast.expr = ast.Constant(value=mag) if sym is None else (sym if mag == 1 else ast.BinOp(left=ast.Constant(value=mag), op=ast.Mult(), right=sym))
        if out is None:
            out = t if coef >= 0 else ast.UnaryOp(op=ast.USub(), operand=t)
        else:
            out = ast.BinOp(left=out, op=ast.Add() if coef >= 0 else ast.Sub(), right=t)
    return out  # type: ignore[return-value]


def _own(fn: ast.AST):
    stack = list(ast.iter_child_nodes(fn))
    while stack:
        n = stack.pop()
        yield n
        if isinstance(n, FuncNode + (ast.Lambda, ast.ClassDef)):
            continue
        stack.extend(ast.iter_child_nodes(n))


class _Rewrite(ast.NodeTransformer):
    def __init__(self, k: str, start: Lin, bound: Lin | None, defs: dict[str, ast.AST]):
        self.k, self.start, self.bound, self.defs = k, start, bound, defs

    def _shifted(self, e: ast.AST) -> Lin | None:
        """linear form of e with the (old) loop variable replaced by k + start"""
        l = lin(e, self.defs)
        if l is None:
            return None
        c = l.pop(self.k, 0)
        if c:
            l[self.k] = l.get(self.k, 0) + c
            for s, v in self.start.items():
                l[s] = l.get(s, 0) + c * v
        return {a: b for a, b in l.items() if b != 0}

    def visit_Compare(self, node: ast.Compare):
        # decide on the original operands (where the loop variable still has its old meaning); only fall back to rewriting the parts
        mentions = any(isinstance(x, ast.Name) and x.id == self.k for x in ast.walk(node))
        if len(node.ops) != 1 or not mentions:
            self.generic_visit(node)
            return node
        a, b = self._shifted(node.left), self._shifted(node.comparators[0])
        if a is None or b is None or self.bound is None:
            self.generic_visit(node)
            return node
        orig = node
        node = copy.copy(node)
        d = dict(a)
        for s, v in b.items():
            d[s] = d.get(s, 0) - v
        d = {x: y for x, y in d.items() if y != 0}
        # d = k - bound + c  ?
        if d.get(self.k, 0) != 1:
            self.generic_visit(orig)
            return orig
        rest = {x: y for x, y in d.items() if x != self.k}
        for s, v in self.bound.items():
            rest[s] = rest.get(s, 0) + v
        rest = {x: y for x, y in rest.items() if y != 0}
        if set(rest) - {1}:
            self.generic_visit(orig)
            return orig
        c = rest.get(1, 0)  # comparison is:  k - bound + c  OP  0
        lt = ast.Compare(left=ast.Name(id=self.k, ctx=ast.Load()), ops=[ast.Lt()], comparators=[unlin(self.bound)])
        neg = ast.UnaryOp(op=ast.Not(), operand=lt)
        op = node.ops[0]
        new = None
        if isinstance(op, ast.Lt) and c == 0:
            new = lt
        elif isinstance(op, ast.LtE) and c == 1:
            new = lt
        elif isinstance(op, ast.GtE) and c == 0:
            new = neg
        elif isinstance(op, ast.Gt) and c == 1:
            new = neg
        elif isinstance(op, ast.Eq) and c == 0:
            new = neg  # inside the loop k <= bound, so k == bound is "no k < bound"
        elif isinstance(op, ast.NotEq) and c == 0:
            new = lt
        if new is not None:
            return ast.copy_location(new, orig)
        self.generic_visit(orig)
        return orig

    def visit_BinOp(self, node: ast.BinOp):
        if isinstance(node.op, (ast.Add, ast.Sub)) and any(isinstance(x, ast.Name) and x.id == self.k for x in ast.walk(node)):
            l = self._shifted(node)
            if l is not None:
                return ast.copy_location(unlin(l), node)
        self.generic_visit(node)
        return node

    def visit_Name(self, node: ast.Name):
        if node.id == self.k and isinstance(node.ctx, ast.Load):
            l = dict(self.start)
            l[self.k] = l.get(self.k, 0) + 1
            return ast.copy_location(unlin(l), node)
        return node

    def visit_FunctionDef(self, node):
        return node

    visit_AsyncFunctionDef = visit_FunctionDef  # noqa: N815
    visit_Lambda = visit_FunctionDef  # noqa: N815


def normalise_counting_loops(tree: ast.Module, module: str) -> list[str]:
    log: list[str] = []
    for fn in [n for n in ast.walk(tree) if isinstance(n, FuncNode)]:
        stores: dict[str, list[ast.AST]] = {}
        for n in _own(fn):
            if isinstance(n, ast.Name) and isinstance(n.ctx, (ast.Store, ast.Del)):
                stores.setdefault(n.id, []).append(n)
        # single-assignment locals with a linear right-hand side (plain abbreviations)
        defs: dict[str, ast.AST] = {}
        for n in _own(fn):
            if isinstance(n, ast.Assign) and len(n.targets) == 1 and isinstance(n.targets[0], ast.Name) and len(stores.get(n.targets[0].id, [])) == 1:
                if lin(n.value, {}) is not None and not isinstance(n.value, (ast.Name, ast.Constant)):
                    defs[n.targets[0].id] = n.value
        for loop in [n for n in _own(fn) if isinstance(n, ast.For)]:
            it = loop.iter
            if not (isinstance(loop.target, ast.Name) and isinstance(it, ast.Call) and isinstance(it.func, ast.Name) and it.func.id == 'range' and not it.keywords and 1 <= len(it.args) <= 2):
                continue
            k = loop.target.id
            if len(stores.get(k, [])) != 1:
                continue
            start = lin(it.args[0], defs) if len(it.args) == 2 else {}
            stop = lin(it.args[-1], defs)
            if start is None or stop is None:
                continue
            uses_defs = any(isinstance(x, ast.Name) and x.id in defs for x in ast.walk(it))
            if not start and not uses_defs:
                continue  # already in normal form
            count = dict(stop)
            for s, v in start.items():
                count[s] = count.get(s, 0) - v
            count = {a: b for a, b in count.items() if b != 0}
            bound = dict(count)
            bound[1] = bound.get(1, 0) - 1  # last index = count - 1
            bound = {a: b for a, b in bound.items() if b != 0}
            rw = _Rewrite(k, start, bound, defs)
            loop.body = [rw.visit(s) for s in loop.body]
            loop.iter = ast.copy_location(ast.Call(func=ast.Name(id='range', ctx=ast.Load()), args=[unlin(count)], keywords=[]), it)
            ast.fix_missing_locations(loop)
            log.append(f'{module}:{fn.name} counting loop `for {k} in {ast.unparse(it)}` normalised to `for {k} in {ast.unparse(loop.iter)}` (index shifted by {ast.unparse(unlin(start)) if start else 0})')
    return log
