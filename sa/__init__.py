"""bubus-sa: repository-specific static analysis engine for browser-use/bubus.

Nothing in this package imports or executes bubus code. Everything is computed from the
source text under <root>/bubus/*.py parsed with CPython's ``ast``.
"""
