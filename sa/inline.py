"""Fold *new* private helpers into their callers before analysis.

The rules are anchored on the functions confirmed by hand (sa/known_units.json).  A behaviour-preserving refactoring that
extracts part of an anchored function into a new private helper would otherwise move the constructs the rules look for out
of the anchored unit (false alarms), and a regression hidden in such a helper would be invisible.  So, before indexing:

* a new function (not in known_units.json; private name or nested; no decorator other than staticmethod/classmethod; not a
  generator; not recursive) whose body is a single ``return <expr>`` is substituted at every use (calls get the expression with
  the arguments substituted, bare references become an equivalent lambda);
* a new function all of whose uses are calls in statement position (``h(..)``, ``x = h(..)``, ``return h(..)``, each optionally
  awaited) is inlined there: parameters are substituted (simple arguments) or bound by a leading assignment, colliding locals are
  renamed, and ``return`` is eliminated by turning guard clauses into if/else (helpers that return from inside a loop / try / with
  are left alone);
* anything else is left as it is.

Nothing is executed; this is a source-to-source normalisation of the parsed tree.  Folded code keeps its original line numbers.
"""

from __future__ import annotations

import ast
import copy
import json
import os
from typing import Iterable

FuncNode = (ast.FunctionDef, ast.AsyncFunctionDef)


class NotInlinable(Exception):
    pass


def load_known() -> set[tuple[str, str]]:
    p = os.path.join(os.path.dirname(os.path.abspath(__file__)), 'known_units.json')
    return {tuple(x) for x in json.load(open(p, encoding='utf-8'))['units']}


def load_known_locals() -> dict[str, list[str]] | None:
    p = os.path.join(os.path.dirname(os.path.abspath(__file__)), 'known_units.json')
    return json.load(open(p, encoding='utf-8')).get('locals')


# ------------------------------------------------------------------------------------------------ discovery
def _defs(tree: ast.Module):
    """(qualname, def node, container body list, enclosing class name or None, enclosing def or None)."""
    out = []

    def walk(body: list[ast.stmt], prefix: str, cls: str | None, outer):
        for st in body:
            if isinstance(st, FuncNode):
                qn = f'{prefix}{st.name}'
                out.append((qn, st, body, cls, outer))
                for inner in ast.walk(st):
                    if inner is st:
                        continue
                walk_nested(st, f'{qn}.', cls)
            elif isinstance(st, ast.ClassDef):
                walk(st.body, f'{st.name}.', st.name, None)
            elif isinstance(st, (ast.If, ast.Try)):
                for f in ('body', 'orelse', 'finalbody'):
                    walk(getattr(st, f, []) or [], prefix, cls, outer)

    def walk_nested(fn, prefix: str, cls: str | None):
        def rec(body):
            for st in body:
                if isinstance(st, FuncNode):
                    qn = f'{prefix}{st.name}'
                    out.append((qn, st, body, cls, fn))
                    walk_nested(st, f'{qn}.', cls)
                elif isinstance(st, ast.ClassDef):
                    continue
                else:
                    for f in ('body', 'orelse', 'finalbody'):
                        b = getattr(st, f, None)
                        if isinstance(b, list):
                            rec(b)
                    for h in getattr(st, 'handlers', []) or []:
                        rec(h.body)

        rec(fn.body)

    walk(tree.body, '', None, None)
    return out


def _own_walk(fn):
    stack = list(ast.iter_child_nodes(fn))
    while stack:
        n = stack.pop()
        yield n
        if isinstance(n, FuncNode + (ast.ClassDef,)):
            continue
        stack.extend(ast.iter_child_nodes(n))


def _body_wo_doc(fn) -> list[ast.stmt]:
    b = list(fn.body)
    if b and isinstance(b[0], ast.Expr) and isinstance(b[0].value, ast.Constant) and isinstance(b[0].value.value, str):
        b = b[1:]
    return b


def _is_candidate(qn: str, fn, cls: str | None, outer, module: str, known: set) -> bool:
    if (module, qn) in known:
        return False
    if outer is None and not fn.name.startswith('_') and cls is None:
        return False  # a new public module-level function: part of the API, analysed as a unit of its own
    if fn.name.startswith('__') and fn.name.endswith('__'):
        return False
    decos = [ast.unparse(d) for d in fn.decorator_list]
    is_cm = any(d.split('.')[-1] in ('contextmanager', 'asynccontextmanager') for d in decos)
    if decos == ['property']:
        # a new read-only property: folded into its reads when its body comes down to one expression (see _property_expression)
        return cls is not None and outer is None and not isinstance(fn, ast.AsyncFunctionDef) and _property_expression(fn) is not None
    if any(d not in ('staticmethod', 'classmethod') and d.split('.')[-1] not in ('contextmanager', 'asynccontextmanager') for d in decos):
        return False
    for n in _own_walk(fn):
        if isinstance(n, ast.YieldFrom) or (isinstance(n, ast.Yield) and not is_cm):
            return False
        if isinstance(n, ast.Call) and ((isinstance(n.func, ast.Name) and n.func.id == fn.name) or (isinstance(n.func, ast.Attribute) and n.func.attr == fn.name)):
            return False  # recursive
    if fn.args.vararg or fn.args.kwarg:
        return False
    return True


_PURE_OBSERVERS = {'qsize', 'len', 'is_set', 'done', 'cancelled', 'locked', 'isinstance', 'hasattr', 'getattr', 'max', 'min', 'bool', 'str', 'id', 'type', 'empty', 'full'}


def _property_expression(fn) -> ast.AST | None:
    """The one expression a property's body computes: `return E`, possibly after bindings `x = <side-effect-free expression>` of locals that are each bound once (written out)."""
    body = _body_wo_doc(fn)
    if not body or not isinstance(body[-1], ast.Return) or body[-1].value is None:
        return None
    env: dict[str, ast.AST] = {}
    guards: list[tuple[ast.AST, ast.AST]] = []  # guard clauses `if T: return V` (no else): the body is `V1 if T1 else (V2 if T2 else ... E)`
    for st in body[:-1]:
        if isinstance(st, ast.If) and not st.orelse and len(st.body) == 1 and isinstance(st.body[0], ast.Return) and st.body[0].value is not None \
                and not any(isinstance(x, (ast.Await, ast.Yield, ast.YieldFrom, ast.NamedExpr)) for x in ast.walk(st)):
            guards.append((_SubstNamesOnly(env).visit(copy.deepcopy(st.test)), _SubstNamesOnly(env).visit(copy.deepcopy(st.body[0].value))))
            continue
        if guards:
            return None  # a binding after a guard clause would be evaluated before the guard once written out: leave such bodies to the statement form
        if isinstance(st, ast.Assign) and len(st.targets) == 1 and isinstance(st.targets[0], ast.Name):
            nm, val = st.targets[0].id, st.value
        elif isinstance(st, ast.AnnAssign) and isinstance(st.target, ast.Name) and st.value is not None:
            nm, val = st.target.id, st.value
        else:
            return None
        if nm in env or any(isinstance(x, (ast.Await, ast.Yield, ast.YieldFrom, ast.NamedExpr, ast.Lambda, ast.ListComp, ast.SetComp, ast.DictComp, ast.GeneratorExp)) for x in ast.walk(val)):
            return None
        if any(isinstance(x, ast.Call) and (x.func.attr if isinstance(x.func, ast.Attribute) else getattr(x.func, 'id', None)) not in _PURE_OBSERVERS for x in ast.walk(val)):
            return None  # only calls that observe (a size, a flag, a type) may move to where the local is read
        env[nm] = _SubstNamesOnly(env).visit(copy.deepcopy(val))
    out = _SubstNamesOnly(env).visit(copy.deepcopy(body[-1].value))
    for t, v in reversed(guards):
        out = ast.IfExp(test=t, body=v, orelse=out)
    return out


class _SubstNamesOnly(ast.NodeTransformer):
    def __init__(self, env: dict[str, ast.AST]):
        self.env = env

    def visit_Name(self, node: ast.Name):  # noqa: N802
        if isinstance(node.ctx, ast.Load) and node.id in self.env:
            return ast.copy_location(copy.deepcopy(self.env[node.id]), node)
        return node

    def visit_Lambda(self, node):  # noqa: N802
        return node


def _fold_property(fn, refs: list[ast.AST], parents) -> None:
    expr = _property_expression(fn)
    if expr is None or not fn.args.args:
        raise NotInlinable('property body is not one expression')
    self_ = fn.args.args[0].arg
    plan = []
    for r in refs:
        if not isinstance(r, ast.Attribute) or not _simple(r.value):
            raise NotInlinable('property read on a receiver that is not a plain name / attribute chain')
        plan.append((r, _Subst({self_: r.value}, {}).visit(copy.deepcopy(expr))))
    for old, new in plan:
        _replace(parents, old, ast.copy_location(new, old))


# ------------------------------------------------------------------------------------------------ substitution
class _Subst(ast.NodeTransformer):
    def __init__(self, mapping: dict[str, ast.AST], rename: dict[str, str]):
        self.mapping = mapping
        self.rename = rename

    def visit_Name(self, node: ast.Name):
        if node.id in self.mapping and isinstance(node.ctx, ast.Load):
            return ast.copy_location(copy.deepcopy(self.mapping[node.id]), node)
        if node.id in self.rename:
            return ast.copy_location(ast.Name(id=self.rename[node.id], ctx=node.ctx), node)
        return node

    def visit_arg(self, node: ast.arg):
        if node.arg in self.rename:
            node.arg = self.rename[node.arg]
        return node

    def _nested(self, node):
        # a nested function: its own name follows the renaming of the scope it is defined in; its parameters shadow what is substituted outside
        if not isinstance(node, ast.Lambda) and node.name in self.rename:
            node.name = self.rename[node.name]
        a = node.args
        own = {x.arg for x in a.posonlyargs + a.args + a.kwonlyargs} | ({a.vararg.arg} if a.vararg else set()) | ({a.kwarg.arg} if a.kwarg else set())
        for d in a.defaults + [d for d in a.kw_defaults if d is not None]:
            self.visit(d)
        saved = (self.mapping, self.rename)
        self.mapping = {k: v for k, v in self.mapping.items() if k not in own}
        self.rename = {k: v for k, v in self.rename.items() if k not in own}
        if isinstance(node, ast.Lambda):
            node.body = self.visit(node.body)
        else:
            node.body = [self.visit(st) for st in node.body]
            node.decorator_list = [self.visit(d) for d in node.decorator_list]
        self.mapping, self.rename = saved
        return node

    visit_FunctionDef = _nested  # noqa: N815
    visit_AsyncFunctionDef = _nested  # noqa: N815
    visit_Lambda = _nested  # noqa: N815


def _simple(e: ast.AST) -> bool:
    if isinstance(e, (ast.Name, ast.Constant)):
        return True
    if isinstance(e, ast.Attribute):
        return _simple(e.value)
    return False


def _bind(fn, call: ast.Call, is_method: bool, static: bool) -> tuple[dict[str, ast.AST], list[ast.stmt]]:
    """param -> argument expression (for substitution) and leading assignments for the rest."""
    a = fn.args
    params = [x.arg for x in a.posonlyargs + a.args]
    defaults = dict(zip(params[len(params) - len(a.defaults):], a.defaults)) if a.defaults else {}
    for k, d in zip(a.kwonlyargs, a.kw_defaults):
        params.append(k.arg)
        if d is not None:
            defaults[k.arg] = d
    actual: dict[str, ast.AST] = {}
    pos = list(call.args)
    if any(isinstance(x, ast.Starred) for x in pos) or any(k.arg is None for k in call.keywords):
        raise NotInlinable('star args')
    plist = list(params)
    if is_method and not static:
        recv = call.func.value if isinstance(call.func, ast.Attribute) else None
        if recv is None or not plist:
            raise NotInlinable('method called without receiver')
        actual[plist[0]] = recv
        plist = plist[1:]
    for p, v in zip(plist, pos):
        actual[p] = v
    if len(pos) > len(plist):
        raise NotInlinable('too many args')
    for k in call.keywords:
        actual[k.arg] = k.value  # type: ignore[index]
    for p in params:
        if p not in actual:
            if p in defaults:
                actual[p] = defaults[p]
            else:
                raise NotInlinable(f'missing argument {p}')
    stored = {n.id for n in _own_walk(fn) if isinstance(n, ast.Name) and isinstance(n.ctx, (ast.Store, ast.Del))}
    mapping: dict[str, ast.AST] = {}
    prelude: list[ast.stmt] = []
    for p, v in actual.items():
        if _simple(v) and p not in stored:
            mapping[p] = v
        else:
            asg = ast.Assign(targets=[ast.Name(id=p, ctx=ast.Store())], value=copy.deepcopy(v))
            prelude.append(ast.copy_location(asg, call))
    return mapping, prelude


def _contains_return(st: ast.AST) -> bool:
    return any(isinstance(n, ast.Return) for n in ([st] + list(_own_walk(st))))


def _elim_returns(stmts: list[ast.stmt], on_return) -> list[ast.stmt]:
    out: list[ast.stmt] = []
    for i, st in enumerate(stmts):
        if isinstance(st, ast.Return):
            out.extend(on_return(st))
            return out
        if isinstance(st, ast.If) and _contains_return(st):
            rest = stmts[i + 1:]
            body = _elim_returns(list(st.body) + [copy.deepcopy(x) for x in rest], on_return)
            orelse = _elim_returns(list(st.orelse) + [copy.deepcopy(x) for x in rest], on_return)
            new = ast.If(test=st.test, body=body or [ast.copy_location(ast.Pass(), st)], orelse=orelse)
            out.append(ast.copy_location(new, st))
            return out
        if not isinstance(st, FuncNode) and _contains_return(st):
            raise NotInlinable('return inside a loop / try / with')
        out.append(st)
    return out


def _names_in(fn) -> set[str]:
    return {n.id for n in ast.walk(fn) if isinstance(n, ast.Name)} | {a.arg for a in ast.walk(fn) if isinstance(a, ast.arg)}


def _stmt_position(call: ast.Call, parents: dict[int, ast.AST]):
    """('expr'|'assign'|'return', stmt, awaited) if the call is the whole value of a statement, else None."""
    p = parents.get(id(call))
    awaited = False
    node: ast.AST = call
    if isinstance(p, ast.Await):
        awaited = True
        node = p
        p = parents.get(id(p))
    if isinstance(p, ast.Expr) and p.value is node:
        return 'expr', p, awaited
    if isinstance(p, ast.Assign) and p.value is node and len(p.targets) == 1 and isinstance(p.targets[0], (ast.Name, ast.Attribute, ast.Tuple)):
        return 'assign', p, awaited
    if isinstance(p, ast.AnnAssign) and p.value is node:
        return 'assign', p, awaited
    if isinstance(p, ast.Return) and p.value is node:
        return 'return', p, awaited
    return None


def _parents(tree) -> dict[int, ast.AST]:
    out = {}
    for p in ast.walk(tree):
        for ch in ast.iter_child_nodes(p):
            out[id(ch)] = p
    return out


def _containing_block(stmt: ast.stmt, parents: dict[int, ast.AST]) -> list[ast.stmt] | None:
    p = parents.get(id(stmt))
    if p is None:
        return None
    for f in ('body', 'orelse', 'finalbody'):
        b = getattr(p, f, None)
        if isinstance(b, list) and any(x is stmt for x in b):
            return b
    return None


def _enclosing_def(node: ast.AST, parents: dict[int, ast.AST]):
    p = parents.get(id(node))
    while p is not None and not isinstance(p, FuncNode):
        p = parents.get(id(p))
    return p


# ------------------------------------------------------------------------------------------------ driver
def fold_new_helpers(tree: ast.Module, module: str, known: set[tuple[str, str]] | None = None, max_rounds: int = 60,
                     foreign: list[tuple[str, str, ast.AST, str]] | None = None) -> list[str]:
    """*foreign*: new methods defined in OTHER modules (module, qualname, def node, class name) whose call sites in this tree are folded too (the definitions stay where
    they are).  A call site is recognised by the method's name, so only names defined exactly once in the whole library are passed in."""
    known = known if known is not None else load_known()
    log: list[str] = []
    for _ in range(max_rounds):
        changed = False
        parents = _parents(tree)
        own = [(qn, fn, container, cls, outer, module) for qn, fn, container, cls, outer in _defs(tree)]
        theirs = [(qn_, fn_, None, cls_, None, mod_) for mod_, qn_, fn_, cls_ in (foreign or [])]
        for qn, fn, container, cls, outer, home in own + theirs:
            if not _is_candidate(qn, fn, cls, outer, home, known):
                continue
            is_method = cls is not None and outer is None
            static = any(ast.unparse(d) == 'staticmethod' for d in fn.decorator_list)
            if not is_method:
                # the name must have this one binding in its scope: `f = g` / `if c: def f(): ...` makes f a variable, not a helper
                sc = outer if outer is not None else tree
                others = 0
                for n in (_own_walk(sc) if outer is not None else ast.walk(sc)):
                    if n is fn:
                        continue
                    if isinstance(n, ast.Name) and n.id == fn.name and isinstance(n.ctx, (ast.Store, ast.Del)):
                        others += 1
                    elif isinstance(n, (ast.FunctionDef, ast.AsyncFunctionDef, ast.ClassDef)) and n.name == fn.name and outer is not None:
                        others += 1
                    elif isinstance(n, ast.arg) and n.arg == fn.name and outer is not None and n in (outer.args.posonlyargs + outer.args.args + outer.args.kwonlyargs):
                        others += 1
                if others:
                    continue
            # references
            refs: list[ast.AST] = []
            scope = outer if outer is not None else tree
            for n in ast.walk(scope):
                if n is fn or any(x is n for x in ast.walk(fn)):
                    continue
                if is_method:
                    if isinstance(n, ast.Attribute) and n.attr == fn.name and isinstance(n.ctx, ast.Load):
                        refs.append(n)
                elif isinstance(n, ast.Name) and n.id == fn.name and isinstance(n.ctx, ast.Load):
                    refs.append(n)
            if not refs:
                continue
            body = _body_wo_doc(fn)
            try:
                if [ast.unparse(d) for d in fn.decorator_list] == ['property']:
                    _fold_property(fn, refs, parents)
                    how = 'property'
                elif any(ast.unparse(d).split('.')[-1] in ('contextmanager', 'asynccontextmanager') for d in fn.decorator_list):
                    _fold_context_manager(fn, body, refs, parents, is_method, static)
                    how = 'context-manager'
                elif not isinstance(fn, ast.AsyncFunctionDef) and (len(body) == 1 and isinstance(body[0], ast.Return) and body[0].value is not None or (len(body) > 1 and _property_expression(fn) is not None)):
                    # (a body `x = <observation>; return E(x)` comes down to one expression as well)
                    _fold_expression_function(fn, body[0].value if len(body) == 1 else _property_expression(fn), refs, parents, is_method, static)
                    how = 'expression'
                else:
                    if _hoist_test_calls(fn, refs, parents):
                        changed = True
                        log.append(f'{module}:{qn} calls in if-tests hoisted into statement position')
                        break  # parents changed: restart this round, the helper is folded next time round
                    left_as_calls = _fold_statement_function(fn, body, refs, parents, is_method, static)
                    how = 'statement'
            except NotInlinable as e:
                log.append(f'{home}:{qn} left alone ({e})')
                known = set(known) | {(home, qn)}
                continue
            public = outer is None and not fn.name.startswith('_')
            if how == 'statement' and left_as_calls:
                # some uses sit inside expressions: those stay calls of the helper, which stays defined (and is not looked at again)
                known = set(known) | {(home, qn)}
                log.append(f'{home}:{qn} folded into {len(refs) - left_as_calls} of its {len(refs)} use(s) in {module} (statement form) — the definition stays: {left_as_calls} use(s) inside expressions remain calls')
                changed = True
                break
            if home != module:
                log.append(f'{home}:{qn} folded into its {len(refs)} use(s) in {module} ({how} form) — the definition stays in its own module')
                changed = True
                break
            if not public:
                container[:] = [x for x in container if x is not fn] or [ast.copy_location(ast.Pass(), fn)]
            log.append(f'{module}:{qn} folded into its {len(refs)} use(s) ({how} form)' + (' — kept as a unit: a new public method can also be called from outside' if public else ''))
            changed = True
            break  # tree changed: recompute parents / defs
        if not changed:
            break
    ast.fix_missing_locations(tree)
    return log


def _fold_expression_function(fn, expr: ast.AST, refs: list[ast.AST], parents, is_method: bool, static: bool) -> None:
    plan = []
    for r in refs:
        p = parents.get(id(r))
        if isinstance(p, ast.Call) and p.func is r:
            mapping, prelude = _bind(fn, p, is_method, static)
            hoist = None
            if prelude:
                # complex arguments: evaluate them into fresh temporaries just before the statement that contains the call (sound when that
                # statement evaluates the call exactly once and nothing delays it: not a loop test, not under a lambda / comprehension)
                node, st = p, parents.get(id(p))
                while st is not None and not isinstance(st, ast.stmt):
                    if isinstance(st, (ast.Lambda, ast.ListComp, ast.SetComp, ast.DictComp, ast.GeneratorExp)):
                        raise NotInlinable('expression helper with complex arguments called under a lambda / comprehension')
                    node, st = st, parents.get(id(st))
                ok = isinstance(st, (ast.Expr, ast.Assign, ast.AnnAssign, ast.AugAssign, ast.Return, ast.Raise, ast.Assert)) or (isinstance(st, ast.If) and node is st.test) \
                    or (isinstance(st, (ast.For, ast.AsyncFor)) and node is st.iter)
                blk = _containing_block(st, parents) if ok else None
                if blk is None:
                    raise NotInlinable('expression helper called with complex arguments in a position they cannot be hoisted from')
                for asg in prelude:
                    _COUNTER[0] += 1
                    tmp = f'__inl_arg_{_COUNTER[0]}'
                    mapping[asg.targets[0].id] = ast.Name(id=tmp, ctx=ast.Load())  # type: ignore[union-attr]
                    asg.targets[0].id = tmp  # type: ignore[union-attr]
                hoist = (blk, st, prelude)
            plan.append((p, _Subst(mapping, {}).visit(copy.deepcopy(expr)), hoist))
        else:
            if is_method and not static:
                raise NotInlinable('bound-method reference')
            a = fn.args
            lam = ast.Lambda(args=copy.deepcopy(a), body=copy.deepcopy(expr))
            for x in ast.walk(lam.args):
                if isinstance(x, ast.arg):
                    x.annotation = None
            plan.append((r, lam, None))
    for old, new, hoist in plan:
        _replace(parents, old, ast.copy_location(new, old))
        if hoist is not None:
            blk, st, prelude = hoist
            i = next(k for k, x in enumerate(blk) if x is st)
            blk[i:i] = prelude


def _replace(parents, old: ast.AST, new: ast.AST) -> None:
    p = parents.get(id(old))
    for f, v in ast.iter_fields(p):
        if v is old:
            setattr(p, f, new)
            return
        if isinstance(v, list):
            for i, x in enumerate(v):
                if x is old:
                    v[i] = new
                    return
    raise NotInlinable('cannot locate node to replace')


def _fold_statement_function(fn, body: list[ast.stmt], refs: list[ast.AST], parents, is_method: bool, static: bool) -> int:
    """Returns the number of uses that were left as calls (inside an expression: nothing to splice statements into); the definition must stay then."""
    sites = []
    skipped = 0
    for r in refs:
        p = parents.get(id(r))
        if not (isinstance(p, ast.Call) and p.func is r):
            raise NotInlinable('referenced without being called')
        pos = _stmt_position(p, parents)
        if pos is None:
            skipped += 1
            continue
        kind, stmt, awaited = pos
        if isinstance(fn, ast.AsyncFunctionDef) != awaited:
            raise NotInlinable('async helper not awaited in place (or sync helper awaited)')
        blk = _containing_block(stmt, parents)
        if blk is None:
            raise NotInlinable('call statement not in a plain block')
        sites.append((p, kind, stmt, blk))
    if not sites:
        raise NotInlinable('called inside an expression')
    for call, kind, stmt, blk in sites:
        mapping, prelude = _bind(fn, call, is_method, static)
        caller = _enclosing_def(stmt, parents)
        taken = _names_in(caller) if caller is not None else set()
        helper_locals = {n.id for n in _own_walk(fn) if isinstance(n, ast.Name) and isinstance(n.ctx, ast.Store)} | {x.name for x in _own_walk(fn) if isinstance(x, FuncNode)}
        params = {a.arg for a in fn.args.posonlyargs + fn.args.args + fn.args.kwonlyargs}
        rename = {}
        for nm in helper_locals - params:
            if nm in taken:
                rename[nm] = f'{nm}__{fn.name.strip("_")}'
        for asg in prelude:
            nm = asg.targets[0].id  # type: ignore[union-attr]
            if nm in taken and not (isinstance(asg.value, ast.Name) and asg.value.id == nm):
                rename[nm] = f'{nm}__{fn.name.strip("_")}'
                asg.targets[0].id = rename[nm]  # type: ignore[union-attr]
        new_body = [_Subst(mapping, rename).visit(copy.deepcopy(s)) for s in body]
        if kind == 'return':
            spliced = prelude + new_body
            if not _always_returns(new_body):
                spliced.append(ast.copy_location(ast.Return(value=None), stmt))
        else:
            target = None
            if kind == 'assign':
                target = stmt.targets[0] if isinstance(stmt, ast.Assign) else stmt.target

            def on_return(r, target=target, stmt=stmt):
                if target is None:
                    return [ast.copy_location(ast.Expr(value=r.value), r)] if r.value is not None and any(isinstance(x, (ast.Call, ast.Await)) for x in ast.walk(r.value)) else []
                val = r.value if r.value is not None else ast.Constant(value=None)
                return [ast.copy_location(ast.Assign(targets=[copy.deepcopy(target)], value=val), r)]

            try:
                lowered = _elim_returns(new_body, on_return)
            except NotInlinable:
                lowered = None
            if lowered is None:
                _COUNTER[0] += 1
                flag = f'__inl_done_{_COUNTER[0]}'
                body2, _ = _lower_with_flag([_Subst(mapping, rename).visit(copy.deepcopy(s)) for s in body], on_return, flag, False, stmt)
                init = [ast.copy_location(ast.Assign(targets=[ast.Name(id=flag, ctx=ast.Store())], value=ast.Constant(value=False)), stmt)]
                if target is not None:
                    init.insert(0, ast.copy_location(ast.Assign(targets=[copy.deepcopy(target)], value=ast.Constant(value=None)), stmt))
                spliced = prelude + init + body2
                i = next(k for k, x in enumerate(blk) if x is stmt)
                blk[i:i + 1] = spliced
                continue
            spliced = prelude + lowered
            if target is not None and not _always_returns(new_body):
                # falling off the end returns None: only sound to add when no return was reached; the guard-clause elimination put every
                # return in a terminal position, so a trailing default assignment would overwrite: prepend the default instead
                spliced = [ast.copy_location(ast.Assign(targets=[copy.deepcopy(target)], value=ast.Constant(value=None)), stmt)] + spliced
        i = next(k for k, x in enumerate(blk) if x is stmt)
        blk[i:i + 1] = spliced or [ast.copy_location(ast.Pass(), stmt)]
    return skipped


def _yield_block(stmts: list[ast.stmt], is_yield) -> tuple[list[ast.stmt], int, list[ast.stmt]] | None:
    """The block that holds the `yield` statement, its index there, and the chain of enclosing statements (outermost first).  The yield may sit at the top level or nested in
    the bodies of `try` / `with` / `async with` statements (the shapes a context manager is written in); not inside loops, branches, handlers or finally blocks."""
    for i, st in enumerate(stmts):
        if isinstance(st, ast.Expr) and is_yield(st.value):
            return stmts, i, []
        if isinstance(st, (ast.Try, ast.With, ast.AsyncWith)):
            r = _yield_block(st.body, is_yield)
            if r is not None:
                return r[0], r[1], [st] + r[2]
    return None


def _fold_context_manager(fn, body: list[ast.stmt], refs: list[ast.AST], parents, is_method: bool, static: bool) -> None:
    """`with helper(args) [as v]: BODY` for a generator-based context manager with a single `yield` statement:
        pre; yield; post                       ->  pre; BODY; post                 (post only runs on normal completion: exactly the generator semantics)
        pre; try: a; yield; b  [except..] finally: f   ->  pre; try: a; BODY; b [except..] finally: f
        try: a; with x as f: yield f  except E: h      ->  try: a; with x as f: BODY  except E: h
    An exception raised by BODY is thrown into the generator at the yield, so an enclosing handler of the generator handles it: the spliced form says the same.
    One thing differs and is written out: a handler that swallows an exception raised BEFORE the yield leaves the generator finished without having yielded, which contextlib
    turns into RuntimeError("generator didn't yield") at the `with` statement.  A flag records whether the yield was reached; after the outermost enclosing `try` that has
    handlers, `if not <flag>: raise RuntimeError(..)` states it.
    """
    yields = [n for n in _own_walk(fn) if isinstance(n, ast.Yield)]
    if len(yields) != 1:
        raise NotInlinable('context manager without exactly one yield')
    if _yield_block(body, lambda v: v is yields[0]) is None:
        raise NotInlinable('yield is not a statement at the top level or nested in try / with bodies only')
    is_async = isinstance(fn, ast.AsyncFunctionDef)
    sites = []
    for r in refs:
        p = parents.get(id(r))
        if not (isinstance(p, ast.Call) and p.func is r):
            raise NotInlinable('context manager referenced without being called')
        item = parents.get(id(p))
        w = parents.get(id(item)) if isinstance(item, ast.withitem) else None
        if not isinstance(w, (ast.With, ast.AsyncWith)) or len(w.items) != 1 or isinstance(w, ast.AsyncWith) != is_async:
            raise NotInlinable('context manager not used as the single item of a with statement')
        blk = _containing_block(w, parents)
        if blk is None:
            raise NotInlinable('with statement not in a plain block')
        sites.append((p, item, w, blk))
    for call, item, w, blk in sites:
        mapping, prelude = _bind(fn, call, is_method, static)
        new_body = [_Subst(mapping, {}).visit(copy.deepcopy(s)) for s in body]
        yb = _yield_block(new_body, lambda v: isinstance(v, ast.Yield))
        if yb is None:
            raise NotInlinable('yield lost')
        holder, idx, chain = yb
        bind = []
        if item.optional_vars is not None:
            yv = holder[idx].value.value
            bind = [ast.copy_location(ast.Assign(targets=[copy.deepcopy(item.optional_vars)], value=yv if yv is not None else ast.Constant(value=None)), w)]
        swallowing = [st for st in chain if isinstance(st, ast.Try) and st.handlers]
        pre: list[ast.stmt] = []
        mark: list[ast.stmt] = []
        if swallowing:
            _COUNTER[0] += 1
            flag = f'__inl_yielded_{_COUNTER[0]}'
            pre = [ast.copy_location(ast.Assign(targets=[ast.Name(id=flag, ctx=ast.Store())], value=ast.Constant(value=False)), w)]
            mark = [ast.copy_location(ast.Assign(targets=[ast.Name(id=flag, ctx=ast.Store())], value=ast.Constant(value=True)), w)]
            outer = swallowing[0]
            # find the block that holds the outermost swallowing try and put the check right after it
            def place(stmts: list[ast.stmt]) -> bool:
                for i_, st in enumerate(stmts):
                    if st is outer:
                        chk = ast.If(test=ast.UnaryOp(op=ast.Not(), operand=ast.Name(id=flag, ctx=ast.Load())),
                                     body=[ast.Raise(exc=ast.Call(func=ast.Name(id='RuntimeError', ctx=ast.Load()), args=[ast.Constant(value="generator didn't yield")], keywords=[]), cause=None)], orelse=[])
                        stmts.insert(i_ + 1, ast.copy_location(chk, w))
                        return True
                    if isinstance(st, (ast.Try, ast.With, ast.AsyncWith)) and place(st.body):
                        return True
                return False
            place(new_body)
        holder[idx:idx + 1] = mark + bind + list(w.body)
        spliced = prelude + pre + new_body
        k = next(x for x, st in enumerate(blk) if st is w)
        blk[k:k + 1] = spliced


_COUNTER = [0]


def _lower_with_flag(stmts: list[ast.stmt], on_return, flag: str, in_loop: bool, loc: ast.AST) -> tuple[list[ast.stmt], bool]:
    """General return elimination: `return v` -> `<target> = v; flag = True [; break]`, and everything that would run after a statement
    that may have returned is wrapped in `if not flag:`.  Works through if / try / with / loops (not through a `finally` that returns)."""
    out: list[ast.stmt] = []

    def not_flag():
        return ast.UnaryOp(op=ast.Not(), operand=ast.Name(id=flag, ctx=ast.Load()))

    for i, st in enumerate(stmts):
        may = False
        if isinstance(st, ast.Return):
            out.extend(on_return(st))
            out.append(ast.copy_location(ast.Assign(targets=[ast.Name(id=flag, ctx=ast.Store())], value=ast.Constant(value=True)), st))
            if in_loop:
                out.append(ast.copy_location(ast.Break(), st))
            return out, True
        if isinstance(st, FuncNode + (ast.ClassDef,)) or not _contains_return(st):
            out.append(st)
            continue
        if isinstance(st, ast.If):
            st.body, m1 = _lower_with_flag(st.body, on_return, flag, in_loop, loc)
            st.orelse, m2 = _lower_with_flag(st.orelse, on_return, flag, in_loop, loc)
            may = m1 or m2
        elif isinstance(st, ast.Try):
            if any(_contains_return(x) for x in st.finalbody):
                raise NotInlinable('return inside a finally block')
            st.body, m1 = _lower_with_flag(st.body, on_return, flag, in_loop, loc)
            m2 = False
            for h in st.handlers:
                h.body, mh = _lower_with_flag(h.body, on_return, flag, in_loop, loc)
                m2 = m2 or mh
            st.orelse, m3 = _lower_with_flag(st.orelse, on_return, flag, in_loop, loc)
            if m1 and st.orelse:
                st.orelse = [ast.copy_location(ast.If(test=not_flag(), body=st.orelse, orelse=[]), st)]
            may = m1 or m2 or m3
        elif isinstance(st, (ast.With, ast.AsyncWith)):
            st.body, may = _lower_with_flag(st.body, on_return, flag, in_loop, loc)
        elif isinstance(st, (ast.For, ast.AsyncFor, ast.While)):
            st.body, m1 = _lower_with_flag(st.body, on_return, flag, True, loc)
            if st.orelse and _contains_return(ast.Module(body=st.orelse, type_ignores=[])):
                raise NotInlinable('return inside a loop else clause')
            may = m1
            out.append(st)
            if may and in_loop:
                out.append(ast.copy_location(ast.If(test=ast.Name(id=flag, ctx=ast.Load()), body=[ast.Break()], orelse=[]), st))
            rest, m_rest = _lower_with_flag(stmts[i + 1:], on_return, flag, in_loop, loc)
            if rest:
                out.append(ast.copy_location(ast.If(test=not_flag(), body=rest, orelse=[]), st))
            return out, may or m_rest
        else:
            raise NotInlinable(f'return inside {type(st).__name__}')
        out.append(st)
        if may:
            rest, m_rest = _lower_with_flag(stmts[i + 1:], on_return, flag, in_loop, loc)
            if rest:
                out.append(ast.copy_location(ast.If(test=not_flag(), body=rest, orelse=[]), st))
            return out, True
    return out, False


def _hoist_test_calls(fn, refs: list[ast.AST], parents) -> bool:
    """`if [not] [await] helper(args):`  ->  `__inl_ret_k = [await] helper(args)` + `if [not] __inl_ret_k:` so the call sits in statement position."""
    changed = False
    for r in refs:
        p = parents.get(id(r))
        if not (isinstance(p, ast.Call) and p.func is r):
            continue
        node: ast.AST = p
        up = parents.get(id(node))
        if isinstance(fn, ast.AsyncFunctionDef) and not isinstance(up, ast.Await):
            continue  # a coroutine object handed to create_task() / gather(): not a call that can be folded in place, leave it where it is
        if isinstance(up, ast.Await):
            node, up = up, parents.get(id(up))
        holder = up
        if isinstance(holder, ast.AugAssign) and holder.value is node:
            # `x += helper(args)`  ->  `__inl_ret_k = helper(args)` + `x += __inl_ret_k`
            blk = _containing_block(holder, parents)
            if blk is None:
                continue
            _COUNTER[0] += 1
            name = f'__inl_ret_{_COUNTER[0]}'
            asg = ast.copy_location(ast.Assign(targets=[ast.Name(id=name, ctx=ast.Store())], value=node), holder)
            holder.value = ast.copy_location(ast.Name(id=name, ctx=ast.Load()), node)
            i = next(k for k, x in enumerate(blk) if x is holder)
            blk.insert(i, asg)
            changed = True
            continue
        if isinstance(holder, ast.UnaryOp) and isinstance(holder.op, ast.Not):
            holder = parents.get(id(holder))
        if isinstance(holder, ast.If) and (holder.test is node or holder.test is up):
            blk = _containing_block(holder, parents)
            if blk is None:
                continue
            _COUNTER[0] += 1
            name = f'__inl_ret_{_COUNTER[0]}'
            asg = ast.copy_location(ast.Assign(targets=[ast.Name(id=name, ctx=ast.Store())], value=node), holder)
            ref = ast.copy_location(ast.Name(id=name, ctx=ast.Load()), node)
            if holder.test is node:
                holder.test = ref
            else:
                holder.test.operand = ref  # type: ignore[union-attr]
            i = next(k for k, x in enumerate(blk) if x is holder)
            blk.insert(i, asg)
            changed = True
            continue
        # a call buried in an expression of a simple statement (`x[helper(a)] = v`, `f(helper(a))`, `with cm(helper(a)):`): evaluate it into a temporary just before
        # the statement (the statement evaluates it exactly once; an operand to its left that it could observe changing is not something a key / flag helper does)
        st_node, st_par = node, parents.get(id(node))
        under_lazy = False
        while st_par is not None and not isinstance(st_par, ast.stmt):
            if isinstance(st_par, ast.BoolOp) and st_par.values and st_par.values[0] is st_node:
                pass  # the first operand of and / or is always evaluated
            elif isinstance(st_par, (ast.Lambda, ast.ListComp, ast.SetComp, ast.DictComp, ast.GeneratorExp, ast.IfExp, ast.BoolOp)):
                under_lazy = True
            st_node, st_par = st_par, parents.get(id(st_par))
        # `if A or <..call..>: S`  ->  `if A: S` / `elif <..call..>: S`   and   `if A and <..call..>: S`  ->  `if A: if <..call..>: S`   (no else branch): the call's operand
        # becomes a first operand, from where it can be hoisted
        if isinstance(st_par, ast.If) and not st_par.orelse and isinstance(st_par.test, ast.BoolOp) and st_node is st_par.test:
            bo = st_par.test
            k = next((i for i, v in enumerate(bo.values) if any(x is node for x in ast.walk(v))), 0)
            if k > 0:
                def mk(vals):
                    return vals[0] if len(vals) == 1 else ast.copy_location(ast.BoolOp(op=bo.op, values=list(vals)), bo)
                first, rest = mk(bo.values[:k]), mk(bo.values[k:])
                if isinstance(bo.op, ast.Or):
                    st_par.test = first
                    st_par.orelse = [ast.copy_location(ast.If(test=rest, body=copy.deepcopy(st_par.body), orelse=[]), st_par)]
                else:
                    st_par.test = first
                    st_par.body = [ast.copy_location(ast.If(test=rest, body=st_par.body, orelse=[]), st_par)]
                ast.fix_missing_locations(st_par)
                changed = True
                continue
        direct = isinstance(st_par, (ast.Expr, ast.Assign, ast.AnnAssign, ast.AugAssign, ast.Return)) and getattr(st_par, 'value', None) is node
        if (not under_lazy and not direct and st_par is not None and not isinstance(holder, (ast.While,)) and not (isinstance(holder, ast.BoolOp) and isinstance(parents.get(id(holder)), ast.While))
                and (isinstance(st_par, (ast.Expr, ast.Assign, ast.AnnAssign, ast.AugAssign, ast.Return, ast.Raise, ast.Assert))
                     or (isinstance(st_par, ast.If) and st_node is st_par.test) or (isinstance(st_par, (ast.For, ast.AsyncFor)) and st_node is st_par.iter)
                     or (isinstance(st_par, (ast.With, ast.AsyncWith)) and any(st_node is it for it in st_par.items)))):
            blk = _containing_block(st_par, parents)
            if blk is not None:
                _COUNTER[0] += 1
                name = f'__inl_ret_{_COUNTER[0]}'
                asg = ast.copy_location(ast.Assign(targets=[ast.Name(id=name, ctx=ast.Store())], value=node), st_par)
                _replace(parents, node, ast.copy_location(ast.Name(id=name, ctx=ast.Load()), node))
                i = next(k for k, x in enumerate(blk) if x is st_par)
                blk.insert(i, asg)
                ast.fix_missing_locations(asg)
                changed = True
                continue
        # `while A and [not] [await] helper(args) and B:`  ->  `while True:` + `if not (A): break` + `__r = [await] helper(args)` + `if not __r: break` + `if not (B): break` + body
        whl = holder
        conj_of = None
        if isinstance(whl, ast.BoolOp) and isinstance(whl.op, ast.And) and any(v is node or v is up for v in whl.values):
            conj_of = whl
            whl = parents.get(id(whl))
        if isinstance(whl, ast.While) and not whl.orelse and (whl.test is node or whl.test is up or whl.test is conj_of):
            conjuncts = conj_of.values if conj_of is not None else [whl.test]
            _COUNTER[0] += 1
            name = f'__inl_ret_{_COUNTER[0]}'
            pre: list[ast.stmt] = []

            def brk(test: ast.expr) -> ast.stmt:
                return ast.copy_location(ast.If(test=ast.UnaryOp(op=ast.Not(), operand=test), body=[ast.Break()], orelse=[]), whl)

            for v in conjuncts:
                if v is node or v is up:
                    pre.append(ast.copy_location(ast.Assign(targets=[ast.Name(id=name, ctx=ast.Store())], value=node), whl))
                    ref = ast.copy_location(ast.Name(id=name, ctx=ast.Load()), node)
                    pre.append(brk(ast.UnaryOp(op=ast.Not(), operand=ref)) if (v is up and v is not node and isinstance(v, ast.UnaryOp)) else brk(ref))
                else:
                    pre.append(brk(v))
            whl.test = ast.copy_location(ast.Constant(value=True), whl.test)
            whl.body = pre + list(whl.body)
            ast.fix_missing_locations(whl)
            changed = True
    return changed


def _always_returns(stmts: list[ast.stmt]) -> bool:
    if not stmts:
        return False
    last = stmts[-1]
    if isinstance(last, (ast.Return, ast.Raise)):
        return True
    if isinstance(last, ast.If) and last.orelse:
        return _always_returns(last.body) and _always_returns(last.orelse)
    return False
