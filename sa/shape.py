"""Canonical form of small arithmetic expressions: equality modulo commutativity, associativity, parenthesisation and naming."""

from __future__ import annotations

import ast


def canon(e: ast.AST, rename: dict[str, str] | None = None):
    rename = rename or {}
    if isinstance(e, ast.Constant):
        return ('num', float(e.value)) if isinstance(e.value, (int, float)) and not isinstance(e.value, bool) else ('const', repr(e.value))
    if isinstance(e, ast.Name):
        return ('var', rename.get(e.id, e.id))
    if isinstance(e, ast.Attribute):
        return ('var', rename.get(ast.unparse(e), ast.unparse(e)))
    if isinstance(e, ast.BinOp):
        l, r = canon(e.left, rename), canon(e.right, rename)
        if isinstance(e.op, (ast.Mult, ast.Add)):
            tag = '*' if isinstance(e.op, ast.Mult) else '+'
            ops = []
            for x in (l, r):
                if isinstance(x, tuple) and x[0] == tag:
                    ops.extend(x[1])
                else:
                    ops.append(x)
            return (tag, tuple(sorted(ops, key=repr)))
        if isinstance(e.op, ast.Pow):
            return ('**', l, r)
        if isinstance(e.op, ast.Sub):
            return ('-', l, r)
        if isinstance(e.op, ast.Div):
            return ('/', l, r)
        return ('op', type(e.op).__name__, l, r)
    if isinstance(e, ast.UnaryOp) and isinstance(e.op, ast.USub):
        return ('neg', canon(e.operand, rename))
    if isinstance(e, ast.Call) and isinstance(e.func, ast.Name) and e.func.id in ('pow',) and len(e.args) == 2:
        return ('**', canon(e.args[0], rename), canon(e.args[1], rename))
    if isinstance(e, ast.Call) and isinstance(e.func, ast.Name) and e.func.id in ('float', 'int') and len(e.args) == 1:
        return canon(e.args[0], rename)
    return ('opaque', ast.unparse(e))


def canon_src(src: str, rename: dict[str, str] | None = None):
    return canon(ast.parse(src, mode='eval').body, rename)
