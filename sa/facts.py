"""A small fact domain for path-sensitive searches: a few tracked atoms (locals, attribute reads, pure
call results such as ``sig.is_set()``) with abstract values, refined on branch edges.

Values:  T (True)  F (False)  N (None)  Ty (truthy)  Fy (falsy)  NN (not None)  — absent means unknown.
This is what makes flag-correlated idioms exact instead of noisy:
    if from_queue: task_done()         if semaphore_acquired and semaphore: release()
    if event is None: return None      while not sig.is_set() and i < n
"""

from __future__ import annotations

import ast
import re
from typing import Callable, Iterable

from .cfg import Edge, Node
from .loader import U, contains_await

TRUTHY = {'T', 'Ty'}
FALSY = {'F', 'N', 'Fy'}


def cmp_canon(op: ast.cmpop, l: str, r: str) -> tuple[str, bool] | None:
    """One canonical positive atom per comparison + negation flag: `a != b` = not `a == b` (operands sorted), `a >= b` = not `a < b`,
    `a > b` = `b < a`, `a <= b` = not `b < a` (total orders assumed: the library compares counters, sizes and timestamps)."""
    if isinstance(op, (ast.Eq, ast.NotEq, ast.Lt, ast.LtE, ast.Gt, ast.GtE)):
        lr = _lin_sides(l, r)
        if lr is not None:
            l, r = lr[0], lr[1]
            if lr[2] and isinstance(op, (ast.Lt, ast.LtE, ast.Gt, ast.GtE)):
                op = {ast.Lt: ast.Gt, ast.Gt: ast.Lt, ast.LtE: ast.GtE, ast.GtE: ast.LtE}[type(op)]()
    if isinstance(op, (ast.Eq, ast.NotEq)):
        if r < l:
            l, r = r, l
        return f'{l} == {r}', isinstance(op, ast.NotEq)
    if isinstance(op, (ast.In, ast.NotIn)):
        return f'{l} in {r}', isinstance(op, ast.NotIn)
    if isinstance(op, (ast.Is, ast.IsNot)):
        return f'{l} is {r}', isinstance(op, ast.IsNot)
    if isinstance(op, ast.Lt):
        return f'{l} < {r}', False
    if isinstance(op, ast.GtE):
        return f'{l} < {r}', True
    if isinstance(op, ast.Gt):
        return f'{r} < {l}', False
    if isinstance(op, ast.LtE):
        return f'{r} < {l}', True
    return None


def _lin_sides(l: str, r: str) -> tuple[str, str, bool] | None:
    """A comparison with sums or differences on a side, with every term moved to the side where its coefficient is positive: `n - k > 0` and `k < n` compare the same
    two quantities.  Returns (left text, right text, swapped?) or None when neither side is a sum/difference or a side is not linear."""
    if not any(t in l or t in r for t in (' + ', ' - ')):
        return None
    from .loops import lin

    try:
        le, re_ = ast.parse(l, mode='eval').body, ast.parse(r, mode='eval').body
    except SyntaxError:
        return None
    if not any(isinstance(x, ast.BinOp) and isinstance(x.op, (ast.Add, ast.Sub)) for x in (le, re_)):
        return None  # only a top-level sum/difference is rearranged
    a, b = lin(le, {}), lin(re_, {})
    if a is None or b is None:
        return None
    d = dict(a)
    for k, v in b.items():
        d[k] = d.get(k, 0) - v
    d = {k: v for k, v in d.items() if v}
    if not d or not all(isinstance(v, int) for v in d.values()):
        return None

    def side(terms: dict) -> str:
        if not terms:
            return '0'
        parts = []
        for k in sorted((k for k in terms if k != 1), key=str):
            parts.append(k if terms[k] == 1 else f'{terms[k]} * {k}')
        if 1 in terms:
            parts.append(str(terms[1]))
        return ' + '.join(parts)

    # l - r = d  ->  (positive part) OP (negated negative part)
    pos = {k: v for k, v in d.items() if v > 0}
    neg = {k: -v for k, v in d.items() if v < 0}
    return side(pos), side(neg), False


def _type_test_of_local(atom: str) -> bool:
    """`isinstance(<local name>, <types>)`: the class of the object a local names does not change under calls or suspensions (rebinding the local kills the atom)."""
    return re.fullmatch(r'isinstance\((\w+), [^()]*(\([^()]*\))?\)', atom) is not None


def _unbool(e: ast.AST) -> ast.AST:
    """`bool(X)` has the truth value of X."""
    while isinstance(e, ast.Call) and isinstance(e.func, ast.Name) and e.func.id == 'bool' and len(e.args) == 1 and not e.keywords:
        e = e.args[0]
    return _uncount(e)


# (timestamp attribute, status attribute, status value): set by the loader when the status property of the analysed tree reads `'<value>' if self.<timestamp> else ...`,
# i.e. "the timestamp is set" and "the status is <value>" are one fact with two spellings.
STATUS_SYNONYMS: list[tuple[str, str, str]] = []


def configure_status_synonyms(trees: list[ast.Module]) -> list[str]:
    STATUS_SYNONYMS.clear()
    log = []
    for tree in trees:
        for cls in [n for n in tree.body if isinstance(n, ast.ClassDef)]:
            for fn in [n for n in cls.body if isinstance(n, ast.FunctionDef) and any(isinstance(d, ast.Name) and d.id == 'property' for d in n.decorator_list)]:
                body = [st for st in fn.body if not (isinstance(st, ast.Expr) and isinstance(st.value, ast.Constant))]
                if len(body) == 1 and isinstance(body[0], ast.Return) and isinstance(body[0].value, ast.IfExp):
                    ie = body[0].value
                    self_ = fn.args.args[0].arg if fn.args.args else 'self'
                    if isinstance(ie.body, ast.Constant) and isinstance(ie.body.value, str) and isinstance(ie.test, ast.Attribute) and isinstance(ie.test.value, ast.Name) and ie.test.value.id == self_ \
                            and not any(isinstance(x, ast.Constant) and x.value == ie.body.value for x in ast.walk(ie.orelse)):
                        STATUS_SYNONYMS.append((ie.test.attr, fn.name, ie.body.value))
                        log.append(f'{cls.name}.{fn.name} == {ie.body.value!r} is another spelling of "{ie.test.attr} is set" (read off the property body)')
    return log


def _status_synonym(e: ast.AST) -> ast.AST:
    if not STATUS_SYNONYMS:
        return e
    neg = False
    x = e
    if isinstance(e, ast.Compare) and len(e.ops) == 1 and isinstance(e.ops[0], (ast.Is, ast.IsNot)) and isinstance(e.comparators[0], ast.Constant) and e.comparators[0].value is None:
        neg = isinstance(e.ops[0], ast.Is)
        x = e.left
    if isinstance(x, ast.Attribute):
        for ts, st, val in STATUS_SYNONYMS:
            if x.attr == ts:
                return ast.copy_location(ast.Compare(left=ast.Attribute(value=x.value, attr=st, ctx=ast.Load()), ops=[ast.NotEq() if neg else ast.Eq()], comparators=[ast.Constant(value=val)]), e)
    return e


# library-specific equivalences of tests, registered by the rule modules (each maps a test to an equivalent test over the atoms the rules track, or returns it unchanged)
TEST_REWRITERS: list = []


def _canon_compound(e: ast.AST) -> ast.AST:
    """A compound test with every operand in its canonical spelling (`q.qsize() > 0` as `q.qsize()`, `bool(x)` as `x`): what a compound test is remembered under."""
    if isinstance(e, ast.BoolOp):
        return ast.copy_location(ast.BoolOp(op=e.op, values=[_canon_compound(_unbool(v)) for v in e.values]), e)
    if isinstance(e, ast.UnaryOp) and isinstance(e.op, ast.Not):
        return ast.copy_location(ast.UnaryOp(op=e.op, operand=_canon_compound(_unbool(e.operand))), e)
    return e


def _ifexp_as_boolop(e: ast.AST) -> ast.AST:
    """In a test, a conditional expression with a constant arm has the truth value of a boolean combination: `X if C else 0` is `C and X`; `0 if C else X` is `not C and X`;
    `X if C else 1` is `not C or X`; `1 if C else X` is `C or X`."""
    if not isinstance(e, ast.IfExp):
        return e
    neg = ast.UnaryOp(op=ast.Not(), operand=e.test)
    if isinstance(e.orelse, ast.Constant):
        new = ast.BoolOp(op=ast.And(), values=[e.test, e.body]) if not e.orelse.value else ast.BoolOp(op=ast.Or(), values=[neg, e.body])
    elif isinstance(e.body, ast.Constant):
        new = ast.BoolOp(op=ast.And(), values=[neg, e.orelse]) if not e.body.value else ast.BoolOp(op=ast.Or(), values=[e.test, e.orelse])
    else:
        return e
    return ast.copy_location(ast.fix_missing_locations(new), e)


def _is_count(e: ast.AST) -> bool:
    """A non-negative integer by construction: `q.qsize()` or `len(x)`."""
    return isinstance(e, ast.Call) and not e.keywords and (
        (isinstance(e.func, ast.Attribute) and e.func.attr == 'qsize' and not e.args) or (isinstance(e.func, ast.Name) and e.func.id == 'len' and len(e.args) == 1))


def _uncount(e: ast.AST) -> ast.AST:
    """A count compared with zero has the truth value of the count (or of its negation): `n == 0` is `not n`; `n != 0`, `n > 0`, `n >= 1`, `0 < n` are `n`."""
    for rw in TEST_REWRITERS:
        e = rw(e)
    e = _ifexp_as_boolop(e)
    e = _status_synonym(e)
    if not (isinstance(e, ast.Compare) and len(e.ops) == 1):
        return e
    l, op, r = e.left, e.ops[0], e.comparators[0]
    if _is_count(r) and isinstance(l, ast.Constant):
        flip = {ast.Lt: ast.Gt, ast.Gt: ast.Lt, ast.LtE: ast.GtE, ast.GtE: ast.LtE}
        l, r = r, l
        op = flip.get(type(op), type(op))()
    if not (_is_count(l) and isinstance(r, ast.Constant) and type(r.value) is int):
        return e
    k = r.value
    pos = (isinstance(op, (ast.NotEq, ast.Gt)) and k == 0) or (isinstance(op, ast.GtE) and k == 1)
    neg = (isinstance(op, (ast.Eq, ast.LtE)) and k == 0) or (isinstance(op, ast.Lt) and k == 1)
    if isinstance(l.func, ast.Name) and (pos or neg):
        l = l.args[0]  # a builtin container is truthy exactly when its length is not zero
    if pos:
        return l
    if neg:
        return ast.copy_location(ast.UnaryOp(op=ast.Not(), operand=l), e)
    return e


def truth_of(v: str | None) -> bool | None:
    if v in TRUTHY:
        return True
    if v in FALSY:
        return False
    return None


def const_value(e: ast.AST) -> str | None:
    if isinstance(e, ast.Constant):
        if e.value is True:
            return 'T'
        if e.value is False:
            return 'F'
        if e.value is None:
            return 'N'
        return 'Ty' if e.value else 'Fy'
    return None


class Facts:
    """Configuration of a fact search: which atoms are tracked and how they are invalidated."""

    def __init__(
        self,
        tracked: Callable[[str], bool],
        sticky_true: Iterable[str] = (),
        rhs_value: Callable[[ast.AST], str | None] | None = None,
        cg=None,
        unit=None,
        taskvars: Iterable[str] = (),
        ignore_writes: Iterable[str] = (),
        post: Callable[[Node, dict], None] | None = None,
        stable: Iterable[str] = (),
    ):
        self.stable = set(stable)  # atoms no call or suspension inside the analysed function can change (stated by the rule, with its reason)
        self.post = post  # rule-supplied effect of a node on the facts (e.g. `await sig.wait()` establishes sig.is_set())
        self.ignore_writes = set(ignore_writes)  # attribute names whose writes never invalidate a tracked atom (stated by the rule)
        # names of module-level ContextVars: `NAME.get()` is task-local, so only an explicit write to NAME in this
        # task invalidates it (awaits and opaque callbacks do not: user handlers do not touch private bus state)
        self.taskvars = set(taskvars)
        self.tracked = lambda a, _t=tracked: _t(a) or a.startswith('__inl_')  # synthetic flags introduced by helper folding are always tracked
        self.sticky_true = set(sticky_true)  # atoms that, once truthy, stay truthy (monotone signals)
        self.rhs_value = rhs_value
        self.cg = cg  # CallGraph: effect-based invalidation of attribute atoms (None -> any call invalidates)
        self.unit = unit

    def _invalidate(self, st: ast.AST, env: dict) -> None:
        """Forget non-local atoms that executing *st* may change."""
        if isinstance(st, (ast.FunctionDef, ast.AsyncFunctionDef, ast.ClassDef)):
            return  # a definition executes none of its body
        if any(isinstance(x, (ast.Call, ast.Await)) for x in ast.walk(st)):
            for a in [k for k, w in env.items() if isinstance(w, str) and w.startswith('=') and ('(' in w or '.' in w)]:
                del env[a]  # a remembered test over non-local state does not survive a call
        nonlocal_atoms = [a for a in env if ('(' in a or '.' in a) and a not in self.stable and not (a in self.sticky_true and env[a] in TRUTHY) and not self._init_only(a) and not _type_test_of_local(a)]
        if self.taskvars:
            tv = [a for a in nonlocal_atoms if a.endswith('.get()') and a[:-6] in self.taskvars]
            if tv:
                nonlocal_atoms = [a for a in nonlocal_atoms if a not in tv]
                written_tv = self.cg.stmt_writes(st, self.unit) if (self.cg is not None and self.unit is not None) else {'*'}
                for a in tv:
                    if a[:-6] in written_tv or (self.cg is None and any(isinstance(x, ast.Call) for x in ast.walk(st))):
                        del env[a]
        if not nonlocal_atoms:
            return
        if contains_await(st):
            for a in nonlocal_atoms:
                del env[a]
            return
        has_call = any(isinstance(x, ast.Call) for x in ast.walk(st))
        if not has_call:
            return
        if self.cg is None or self.unit is None:
            for a in nonlocal_atoms:
                del env[a]
            return
        written = self.cg.stmt_writes(st, self.unit) - self.ignore_writes
        if not written:
            return
        for a in nonlocal_atoms:
            # an observer of one library object (`<chain>.is_set()`, `.qsize()`, `.done()`): its answer changes only when that object is written (set / clear / put / cancel ...
            # are recorded as writes of the chain's last attribute); any other call atom may read anything
            observer = re.fullmatch(r'(not )?[\w.]+\.(is_set|qsize|done|cancelled|empty|full)\(\)', a) is not None
            if '*' in written or ('(' in a and not observer) or any(re.search(rf'\.{re.escape(w)}(?![\w])', a) for w in written):
                del env[a]

    # ---------------------------------------------------------------- evaluation
    def atom_of(self, e: ast.AST) -> str | None:
        s = U(e)
        return s if self.tracked(s) else None

    def cmp_atom(self, e: ast.AST) -> tuple[str, bool] | None:
        """`a == b` / `a != b` / `a in b` / `a not in b` as one atom (canonical positive form) + negation flag."""
        if isinstance(e, ast.Compare) and len(e.ops) == 1:
            op = e.ops[0]
            if isinstance(op, (ast.Is, ast.IsNot)) and isinstance(e.comparators[0], ast.Constant) and e.comparators[0].value is None:
                return None
            cc = cmp_canon(op, U(e.left), U(e.comparators[0]))
            if cc is not None and self.tracked(cc[0]):
                return cc
        return None

    def eval(self, e: ast.AST, env: dict) -> bool | None:
        e = _unbool(e)
        c = const_value(e)
        if c is not None:
            return truth_of(c)
        if isinstance(e, (ast.BoolOp, ast.Compare)):
            whole = self.atom_of(_canon_compound(e))  # a compound test tracked as one atom (keeps "A and B is false" without a disjunction domain)
            if whole is not None and whole in env:
                return truth_of(env[whole])
        if isinstance(e, ast.UnaryOp) and isinstance(e.op, ast.Not):
            r = self.eval(e.operand, env)
            return None if r is None else (not r)
        if isinstance(e, ast.IfExp):
            t = self.eval(e.test, env)
            if t is not None:
                return self.eval(e.body if t else e.orelse, env)
            a, b = self.eval(e.body, env), self.eval(e.orelse, env)
            return a if a == b else None
        if isinstance(e, ast.BoolOp):
            vals = [self.eval(v, env) for v in e.values]
            if isinstance(e.op, ast.And):
                if any(v is False for v in vals):
                    return False
                if all(v is True for v in vals):
                    return True
                return None
            if any(v is True for v in vals):
                return True
            if all(v is False for v in vals):
                return False
            return None
        if isinstance(e, ast.Compare) and len(e.ops) == 1:
            op, rhs = e.ops[0], e.comparators[0]
            if isinstance(op, (ast.Is, ast.IsNot)) and isinstance(rhs, ast.Constant) and rhs.value is None:
                a = self.atom_of(e.left)
                v = env.get(a) if a else None
                is_none: bool | None = None
                if v == 'N':
                    is_none = True
                elif v in ('T', 'F', 'Ty', 'NN'):
                    is_none = False
                if is_none is None:
                    return None
                return is_none if isinstance(op, ast.Is) else (not is_none)
        ca = self.cmp_atom(e)
        if ca is not None:
            t = truth_of(env.get(ca[0]))
            return None if t is None else (t != ca[1])
        a = self.atom_of(e)
        if a is not None:
            v = env.get(a)
            if isinstance(v, str) and v.startswith('='):
                # a local that holds the value of a test over tracked atoms (`ok = A and not B`): its truth is the truth of that test
                return self.eval(ast.parse(v[1:], mode='eval').body, {k: w for k, w in env.items() if k != a})
            return truth_of(v)
        return None

    def assume(self, e: ast.AST, truth: bool, env: dict) -> dict | None:
        """Refine env with ``bool(e) == truth``; None if infeasible."""
        e = _unbool(e)
        cur = self.eval(e, env)
        if cur is not None and cur != truth:
            return None
        if isinstance(e, (ast.BoolOp, ast.Compare)):
            whole = self.atom_of(_canon_compound(e))
            if whole is not None:
                env[whole] = 'T' if truth else 'F'
        if isinstance(e, ast.UnaryOp) and isinstance(e.op, ast.Not):
            return self.assume(e.operand, not truth, env)
        if isinstance(e, ast.IfExp):
            t = self.eval(e.test, env)
            if t is not None:
                return self.assume(e.body if t else e.orelse, truth, env)
            # an arm whose truth is fixed the other way cannot be the one taken
            a, b = self.eval(e.body, env), self.eval(e.orelse, env)
            if b is not None and b != truth:
                env2 = self.assume(e.test, True, env)
                return None if env2 is None else self.assume(e.body, truth, env2)
            if a is not None and a != truth:
                env2 = self.assume(e.test, False, env)
                return None if env2 is None else self.assume(e.orelse, truth, env2)
            return env
        if isinstance(e, ast.BoolOp):
            conj = isinstance(e.op, ast.And)
            if conj == truth:  # (and, True) / (or, False): every operand is fixed
                for v in e.values:
                    env2 = self.assume(v, truth, env)
                    if env2 is None:
                        return None
                    env = env2
                return env
            # (and, False) / (or, True): if all operands but one are decided the other way, the last is forced
            vals = [(v, self.eval(v, env)) for v in e.values]
            undecided = [v for v, r in vals if r is None]
            others_neutral = all(r is None or r == (not truth) for _, r in vals)  # and: the rest are True; or: the rest are False
            if len(undecided) == 1 and others_neutral and len([1 for _, r in vals if r is not None]) == len(vals) - 1:
                return self.assume(undecided[0], truth, env)
            return env
        if isinstance(e, ast.Compare) and len(e.ops) == 1:
            op, rhs = e.ops[0], e.comparators[0]
            if isinstance(op, (ast.Is, ast.IsNot)) and isinstance(rhs, ast.Constant) and rhs.value is None:
                a = self.atom_of(e.left)
                if a is None:
                    return env
                want_none = truth if isinstance(op, ast.Is) else (not truth)
                v = env.get(a)
                if want_none:
                    if v in ('T', 'F', 'Ty', 'NN'):
                        return None
                    env[a] = 'N'
                else:
                    if v == 'N':
                        return None
                    if v is None:
                        env[a] = 'NN'
                return env
            ca = self.cmp_atom(e)
            if ca is None:
                a = self.atom_of(e)  # any other comparison (`<`, `>=`, ...) tracked verbatim as one atom
                if a is not None:
                    env[a] = 'T' if truth else 'F'
                return env
            want = truth != ca[1]
            v = env.get(ca[0])
            if truth_of(v) is not None and truth_of(v) != want:
                return None
            env[ca[0]] = 'T' if want else 'F'
            return env
        a = self.atom_of(e)
        if a is None:
            return env
        v = env.get(a)
        if isinstance(v, str) and v.startswith('='):
            rest = {k: w for k, w in env.items() if k != a}
            env2 = self.assume(ast.parse(v[1:], mode='eval').body, truth, rest)
            if env2 is None:
                return None
            env2[a] = 'T' if truth else 'F'
            env.clear()
            env.update(env2)
            return env
        if truth:
            if v in FALSY:
                return None
            if v is None or v == 'NN':
                env[a] = 'Ty'
        else:
            if v in TRUTHY:
                return None
            if v is None:
                env[a] = 'Fy'
            elif v == 'NN':
                env[a] = 'Fy'
        return env

    # ---------------------------------------------------------------- transfer
    def _kill_mentions(self, env: dict, ident: str) -> None:
        pat = re.compile(rf'(?<![\w.]){re.escape(ident)}(?![\w])')
        frozen: dict[str, str] = {}
        for a in list(env):
            if not pat.search(a) and isinstance(env[a], str) and env[a].startswith('=') and pat.search(env[a]):
                # a local that remembers a test over the name being rebound (`was_none = x is None` ... `x = f()`): the test was taken when it was bound, so its value then is
                # the local's value from now on — if it is decided by what is known at this point
                try:
                    r = self.eval(ast.parse(env[a][1:], mode='eval').body, {k: w for k, w in env.items() if k != a})
                except SyntaxError:
                    r = None
                if r is not None:
                    frozen[a] = 'T' if r else 'F'
        for a in list(env):
            if pat.search(a) or (isinstance(env[a], str) and env[a].startswith('=') and pat.search(env[a])):
                del env[a]
        env.update(frozen)

    def transfer(self, n: Node, env: dict) -> dict:
        env = self._transfer(n, env)
        if self.post is not None:
            self.post(n, env)
        return env

    def _transfer(self, n: Node, env: dict) -> dict:
        st = n.ast
        if n.kind in ('stmt', 'return') and isinstance(st, ast.stmt):
            self._invalidate(st, env)
            targets: list[ast.AST] = []
            value: ast.AST | None = None
            if isinstance(st, ast.Assign):
                targets, value = list(st.targets), st.value
            elif isinstance(st, ast.AnnAssign) and st.value is not None:
                targets, value = [st.target], st.value
            elif isinstance(st, ast.AugAssign):
                targets, value = [st.target], None
            pre_env = dict(env)  # what was known before the targets are rebound (the right-hand side is evaluated first)
            for t in targets:
                flat = list(t.elts) if isinstance(t, (ast.Tuple, ast.List)) else [t]
                for tt in flat:
                    if isinstance(tt, ast.Name):
                        self._kill_mentions(env, tt.id)  # rebinding a local
                    elif isinstance(tt, ast.Attribute):
                        txt = U(tt)
                        for a in list(env):
                            if a == txt or a.startswith(txt + '.') or a.startswith(txt + '[') or (txt + '.') in a or (txt + ' ') in a or a.endswith(txt):
                                if txt not in self.ignore_writes and tt.attr not in self.ignore_writes:
                                    del env[a]
                    elif isinstance(tt, ast.Subscript):
                        txt = U(tt.value)
                        for a in list(env):
                            if txt in a:
                                del env[a]
            if len(targets) == 1 and value is not None:
                a = self.atom_of(targets[0])
                if a is not None:
                    # `x = A if <test> else B` with a test the facts decide: the value of the branch that is taken
                    while isinstance(value, ast.IfExp):
                        tv = self.eval(value.test, pre_env)
                        if tv is True:
                            value = value.body
                        elif tv is False:
                            value = value.orelse
                        else:
                            break
                    v = const_value(value)
                    if v is None and self.rhs_value is not None:
                        v = self.rhs_value(value)
                    if v is None:
                        src = self.atom_of(value)
                        if src is not None and src in env:
                            v = env[src]
                    if v is None and isinstance(targets[0], ast.Name) and isinstance(_unbool(value), (ast.BoolOp, ast.Compare, ast.UnaryOp, ast.Call)) and self._pure_test(_unbool(value)):
                        v = '=' + U(_unbool(value))
                    if v is not None:
                        env[a] = v
                    else:
                        env.pop(a, None)
            elif len(targets) == 1 and isinstance(targets[0], ast.Tuple):
                pass
        elif n.kind == 'for' and isinstance(st, (ast.For, ast.AsyncFor)):
            for sub in ast.walk(st.target):
                if isinstance(sub, ast.Name):
                    self._kill_mentions(env, sub.id)
            if isinstance(st, ast.AsyncFor):
                self._havoc_nonlocal(env)
            else:
                self._invalidate(st.iter, env)
        elif n.kind in ('with', 'withexit'):
            nested_owned = False
            if self.cg is not None and self.unit is not None and env.get('holds_global_lock.get()') in TRUTHY and isinstance(st, ast.AsyncWith) and len(st.items) == 1:
                t0 = self.cg.prog.infer(st.items[0].context_expr, self.unit)
                nested_owned = t0 is not None and t0.kind == 'cls' and t0.name == 'ReentrantLock'
            if not nested_owned:  # (entering / leaving a re-entrant lock this context already owns only counts the depth: it does not suspend)
                self._havoc_nonlocal(env)
            if self.taskvars and self.cg is not None and self.unit is not None:
                is_async = isinstance(st, ast.AsyncWith)
                meth = ('__aenter__' if is_async else '__enter__') if n.kind == 'with' else ('__aexit__' if is_async else '__exit__')
                for it in st.items:  # type: ignore[union-attr]
                    t = self.cg.prog.infer(it.context_expr, self.unit)
                    written: set[str] = {'*'}
                    if t is not None and t.kind == 'cls':
                        m = self.cg.prog.method(t.name, meth)
                        written = set(self.cg.twrites(m)) if m is not None else set()
                    elif t is not None and t.kind == 'lib':
                        written = set()
                    for a in list(env):
                        if a.endswith('.get()') and a[:-6] in self.taskvars and (a[:-6] in written):
                            # a re-entrant lock entered while this context already owns it is a nested entry: __aenter__ only counts the depth up, and the matching
                            # __aexit__ counts it down to a value >= 1 and leaves the ownership flag alone (the shape of both methods is what C06.2 checks)
                            if t is not None and t.kind == 'cls' and t.name == 'ReentrantLock' and a == 'holds_global_lock.get()' and env[a] in TRUTHY:
                                continue
                            del env[a]
            if n.kind == 'with':
                for it in st.items:  # type: ignore[union-attr]
                    if it.optional_vars is not None:
                        for sub in ast.walk(it.optional_vars):
                            if isinstance(sub, ast.Name):
                                self._kill_mentions(env, sub.id)
        elif n.kind == 'except' and isinstance(st, ast.ExceptHandler) and st.name:
            self._kill_mentions(env, st.name)
        elif n.kind in ('if', 'while'):
            if any(isinstance(x, ast.Await) for x in ast.walk(st.test)):  # type: ignore[union-attr]
                self._havoc_nonlocal(env)
        return env

    def _pure_test(self, e: ast.AST) -> bool:
        """A test built with and / or / not / comparisons to None from atoms the rule tracks (at least one), and nothing else."""
        e = _unbool(e)
        if isinstance(e, ast.BoolOp):
            return all(self._pure_test(v) for v in e.values)
        if isinstance(e, ast.UnaryOp) and isinstance(e.op, ast.Not):
            return self._pure_test(e.operand)
        if isinstance(e, ast.Compare) and len(e.ops) == 1 and isinstance(e.ops[0], (ast.Is, ast.IsNot)) and isinstance(e.comparators[0], ast.Constant) and e.comparators[0].value is None:
            return self.atom_of(e.left) is not None
        if self.cmp_atom(e) is not None:
            return True
        return self.atom_of(e) is not None

    def _init_only(self, atom: str) -> bool:
        """`x.attr` where attr is written by constructors only, anywhere in the library: a suspension cannot change it (configuration flags)."""
        m = re.fullmatch(r'\w+\.(\w+)', atom)
        if m is None or self.cg is None:
            return False
        attr = m.group(1)
        memo = self.__dict__.setdefault('_init_only_memo', {})
        if attr not in memo:
            ws = self.cg.all_writes(attr)
            memo[attr] = bool(ws) and all(w.unit.name == '__init__' for w in ws)
        return memo[attr]

    def _havoc_nonlocal(self, env: dict) -> None:
        for a in list(env):
            if a.endswith('.get()') and a[:-6] in self.taskvars:
                continue
            if self._init_only(a) or _type_test_of_local(a) or a in self.stable:
                continue
            if ('(' in a or '.' in a) and not (a in self.sticky_true and env[a] in TRUTHY):
                del env[a]

    def edge_ok(self, n: Node, e: Edge, env: dict) -> dict | None:
        if n.kind in ('if', 'while') and e.label in ('true', 'false'):
            return self.assume(n.ast.test, e.label == 'true', env)  # type: ignore[union-attr]
        return env


# ------------------------------------------------------------------------------------------------ propositional entailment
def _props(e: ast.AST, out: set) -> None:
    """Base propositions of a test: ('t', text) = text is truthy, ('n', text) = text is None."""
    e = _unbool(e)
    if isinstance(e, ast.Constant):
        return
    if isinstance(e, ast.UnaryOp) and isinstance(e.op, ast.Not):
        _props(e.operand, out)
        return
    if isinstance(e, ast.BoolOp):
        for v in e.values:
            _props(v, out)
        return
    if isinstance(e, ast.Compare) and len(e.ops) == 1:
        op, rhs = e.ops[0], e.comparators[0]
        if isinstance(op, (ast.Is, ast.IsNot)) and isinstance(rhs, ast.Constant) and rhs.value is None:
            out.add(('n', U(e.left)))
            return
        cc = cmp_canon(op, U(e.left), U(rhs))
        if cc is not None:
            out.add(('t', cc[0]))
            return
    out.add(('t', U(e)))


def _holds(e: ast.AST, val: dict) -> bool:
    e = _unbool(e)
    if isinstance(e, ast.Constant):
        return bool(e.value)
    if isinstance(e, ast.UnaryOp) and isinstance(e.op, ast.Not):
        return not _holds(e.operand, val)
    if isinstance(e, ast.BoolOp):
        rs = [_holds(v, val) for v in e.values]
        return all(rs) if isinstance(e.op, ast.And) else any(rs)
    if isinstance(e, ast.Compare) and len(e.ops) == 1:
        op, rhs = e.ops[0], e.comparators[0]
        if isinstance(op, (ast.Is, ast.IsNot)) and isinstance(rhs, ast.Constant) and rhs.value is None:
            r = val[('n', U(e.left))]
            return r if isinstance(op, ast.Is) else (not r)
        cc = cmp_canon(op, U(e.left), U(rhs))
        if cc is not None:
            v = val[('t', cc[0])]
            return (not v) if cc[1] else v
    return val[('t', U(e))]


def entails(env: dict, guard: ast.AST, max_props: int = 12) -> bool:
    """Do the facts in *env* (atoms and compound tests with a recorded truth) entail *guard*, by enumeration of the base propositions?"""
    import itertools

    facts: list[tuple[ast.AST, str]] = []
    props: set = set()
    _props(guard, props)
    for text, v in env.items():
        if text.startswith('#'):
            continue
        try:
            e = ast.parse(text, mode='eval').body
        except SyntaxError:
            continue
        facts.append((e, v))
        _props(e, props)
        if v in ('N', 'NN', 'T', 'F', 'Ty'):
            props.add(('n', text))
    plist = sorted(props)
    if len(plist) > max_props:
        return False
    texts = {t for k, t in plist}
    for bits in itertools.product((False, True), repeat=len(plist)):
        val = dict(zip(plist, bits))
        ok = True
        for t in texts:  # None is falsy
            if val.get(('n', t)) and val.get(('t', t)):
                ok = False
                break
        if not ok:
            continue
        for e, v in facts:
            try:
                h = _holds(e, val)
            except KeyError:
                continue
            isnone = val.get(('n', U(e)))
            if v in ('T', 'Ty') and not h:
                ok = False
            elif v in ('F', 'Fy') and h:
                ok = False
            elif v == 'N' and (h or isnone is False):
                ok = False
            elif v == 'NN' and isnone is True:
                ok = False
            if v in ('T', 'F', 'Ty') and isnone is True:
                ok = False
            if not ok:
                break
        if not ok:
            continue
        try:
            if not _holds(guard, val):
                return False
        except KeyError:
            return False
    return True


def names_tracker(*names: str) -> Callable[[str], bool]:
    s = set(names)
    return lambda a: a in s


def equivalent(e1: ast.AST, e2: ast.AST, max_props: int = 10) -> bool | None:
    """Are the two tests propositionally equivalent (same truth value under every valuation of their base propositions)?  None if too many propositions."""
    import itertools

    props: set = set()
    _props(e1, props)
    _props(e2, props)
    ps = sorted(props, key=str)
    if len(ps) > max_props:
        return None
    for bits in itertools.product((False, True), repeat=len(ps)):
        val = dict(zip(ps, bits))
        if _holds(e1, val) != _holds(e2, val):
            return False
    return True
