"""Copy propagation of *new* local aliases, before analysis.

The rules name receivers by their text (`self.event_queue.task_done()`, `bus.event_queue.get_nowait()`).  A behaviour-preserving refactoring
that introduces a local alias for such a chain (`queue = self.event_queue`) changes every one of those texts.  Like sa/inline.py does for new
helper functions, this pass folds *new* aliases away: a local name that is not in the frozen list of local names of its function
(sa/known_units.json, "locals"), is bound exactly once, by a plain assignment, to a pure attribute chain (names and attribute reads only), is
used only later in the block that contains the binding, and whose chain is not reassigned in between, is replaced by the chain at every use.
Names the rules were written against are never touched.
"""

from __future__ import annotations

import ast
import copy

FuncNode = (ast.FunctionDef, ast.AsyncFunctionDef)


def _own(fn: ast.AST):
    """Nodes of fn's own scope (not nested function / lambda / class bodies; comprehensions are included)."""
    stack = list(ast.iter_child_nodes(fn))
    while stack:
        n = stack.pop()
        yield n
        if isinstance(n, FuncNode + (ast.Lambda, ast.ClassDef)):
            continue
        stack.extend(ast.iter_child_nodes(n))


def _simple_arg(e: ast.AST) -> bool:
    return isinstance(e, (ast.Name, ast.Constant)) or (isinstance(e, (ast.List, ast.Tuple, ast.Dict)) and all(isinstance(x, (ast.List, ast.Tuple, ast.Dict, ast.Load, ast.Constant)) for x in ast.walk(e)))


def _strip_lookup(e: ast.AST) -> ast.AST:
    """A pure lookup on top of an attribute chain: `<chain>.get(k[, default])` or `<chain>[k]` with simple k (reads a container, changes nothing)."""
    if isinstance(e, ast.Call) and isinstance(e.func, ast.Attribute) and e.func.attr == 'get' and 1 <= len(e.args) <= 2 and not e.keywords and all(_simple_arg(a) for a in e.args):
        return e.func.value
    if isinstance(e, ast.Subscript) and _simple_arg(e.slice):
        return e.value
    return e


def _pure_chain(e: ast.AST) -> bool:
    inner = _strip_lookup(e)
    if inner is not e and not isinstance(inner, ast.Attribute):
        return False  # a lookup on a bare local is not worth (or safe) to propagate
    e = inner
    while isinstance(e, ast.Attribute):
        e = e.value
    return isinstance(e, ast.Name)


def _root(e: ast.AST) -> str:
    e = _strip_lookup(e)
    while isinstance(e, ast.Attribute):
        e = e.value
    return e.id  # type: ignore[union-attr]


def _stores(fn: ast.AST) -> dict[str, list[ast.AST]]:
    out: dict[str, list[ast.AST]] = {}
    for n in _own(fn):
        if isinstance(n, ast.Name) and isinstance(n.ctx, (ast.Store, ast.Del)):
            out.setdefault(n.id, []).append(n)
        elif isinstance(n, ast.ExceptHandler) and n.name:
            out.setdefault(n.name, []).append(n)
        elif isinstance(n, (ast.Import, ast.ImportFrom)):
            for a in n.names:
                out.setdefault((a.asname or a.name).split('.')[0], []).append(n)
        elif isinstance(n, (ast.Global, ast.Nonlocal)):
            for nm in n.names:
                out.setdefault(nm, []).extend([n, n])
        elif isinstance(n, FuncNode + (ast.ClassDef,)):
            out.setdefault(n.name, []).append(n)
    return out


def _pos(n: ast.AST) -> tuple[int, int]:
    return (getattr(n, 'lineno', 0), getattr(n, 'col_offset', 0))


def _blocks(fn: ast.AST):
    for n in [fn] + list(_own(fn)):
        for f in ('body', 'orelse', 'finalbody'):
            b = getattr(n, f, None)
            if isinstance(b, list) and b and isinstance(b[0], ast.stmt):
                yield b
        if isinstance(n, ast.Try):
            for h in n.handlers:
                yield h.body
        if isinstance(n, ast.Match):
            for cs in n.cases:
                yield cs.body


class _Subst(ast.NodeTransformer):
    def __init__(self, name: str, chain: ast.AST):
        self.name, self.chain = name, chain

    def visit_Name(self, node):  # noqa: N802
        if node.id == self.name and isinstance(node.ctx, ast.Load):
            return ast.copy_location(copy.deepcopy(self.chain), node)
        return node

    def visit_FunctionDef(self, node):  # noqa: N802
        return node

    visit_AsyncFunctionDef = visit_FunctionDef  # noqa: N815
    visit_Lambda = visit_FunctionDef  # noqa: N815
    visit_ClassDef = visit_FunctionDef  # noqa: N815


def propagate_new_aliases(tree: ast.Module, module: str, known_locals: dict[str, list[str]] | None) -> list[str]:
    if known_locals is None:
        return []
    log: list[str] = []

    def visit(body: list[ast.stmt], prefix: str):
        for st in body:
            if isinstance(st, FuncNode):
                qn = f'{prefix}{st.name}'
                _one(st, qn)
                visit_nested(st, f'{qn}.')
            elif isinstance(st, ast.ClassDef):
                visit(st.body, f'{st.name}.')
            elif isinstance(st, (ast.If, ast.Try)):
                for f in ('body', 'orelse', 'finalbody'):
                    visit(getattr(st, f, []) or [], prefix)

    def visit_nested(fn, prefix: str):
        for n in _own(fn):
            if isinstance(n, FuncNode):
                qn = f'{prefix}{n.name}'
                _one(n, qn)
                visit_nested(n, f'{qn}.')

    def _one(fn, qn: str):
        known = set(known_locals.get(f'{module}::{qn}', []))
        changed = True
        while changed:
            changed = False
            stores = _stores(fn)
            params = {a.arg for a in fn.args.posonlyargs + fn.args.args + fn.args.kwonlyargs} | ({fn.args.vararg.arg} if fn.args.vararg else set()) | ({fn.args.kwarg.arg} if fn.args.kwarg else set())
            nested_names = {x.id for n in _own(fn) if isinstance(n, FuncNode + (ast.Lambda, ast.ClassDef)) for x in ast.walk(n) if isinstance(x, ast.Name)}
            for blk in _blocks(fn):
                for i, st in enumerate(blk):
                    tgt = val = None
                    if isinstance(st, ast.Assign) and len(st.targets) == 1 and isinstance(st.targets[0], ast.Name):
                        tgt, val = st.targets[0].id, st.value
                    elif isinstance(st, ast.AnnAssign) and isinstance(st.target, ast.Name) and st.value is not None:
                        tgt, val = st.target.id, st.value
                    if tgt is None or tgt in known or tgt in params or tgt.startswith('__inl_') or len(stores.get(tgt, [])) != 1 or not _pure_chain(val) or tgt in nested_names:
                        continue
                    if isinstance(val, ast.Name) and val.id == tgt:
                        continue
                    root = _root(val)
                    after = (st.end_lineno or st.lineno, 10 ** 6)
                    # every use is later in this very block (so the binding dominates it)
                    later = {id(x) for s2 in blk[i + 1:] for x in ast.walk(s2)}
                    uses = [n for n in _own(fn) if isinstance(n, ast.Name) and n.id == tgt and isinstance(n.ctx, ast.Load)]
                    if not uses or not all(id(u) in later for u in uses):
                        continue
                    last_use = max(_pos(u) for u in uses)
                    # the chain must denote the same object at every use: neither its root nor one of its attributes is assigned in between
                    names_in_val = {x.id for x in ast.walk(val) if isinstance(x, ast.Name)}
                    if any(_pos(s) > _pos(st) and _pos(s) <= last_use for nm_ in names_in_val for s in stores.get(nm_, [])):
                        continue
                    chain_txt = ast.unparse(_strip_lookup(val))
                    full_txt = ast.unparse(val)
                    attr_stores = [n for n in _own(fn) if isinstance(n, ast.Attribute) and isinstance(n.ctx, (ast.Store, ast.Del)) and (chain_txt == ast.unparse(n) or chain_txt.startswith(ast.unparse(n) + '.'))]
                    if any(_pos(st) < _pos(n) <= last_use for n in attr_stores):
                        continue
                    # a loop around the block re-executes the binding together with the uses: fine.  Do it.
                    sub = _Subst(tgt, val)
                    for j in range(i + 1, len(blk)):
                        blk[j] = sub.visit(blk[j])
                    blk[i] = ast.copy_location(ast.Pass(), st)
                    log.append(f'{module}:{qn} new alias `{tgt} = {full_txt}` propagated into its {len(uses)} use(s)')
                    changed = True
                    break
                if changed:
                    break

    visit(tree.body, '')
    if log:
        ast.fix_missing_locations(tree)
    return log


def local_names(fn: ast.AST) -> list[str]:
    return sorted(_stores(fn))
