"""Copy propagation of *new* local aliases, before analysis.

The rules name receivers by their text (`self.event_queue.task_done()`, `bus.event_queue.get_nowait()`).  A behaviour-preserving refactoring
that introduces a local alias for such a chain (`queue = self.event_queue`) changes every one of those texts.  Like sa/inline.py does for new
helper functions, this pass folds *new* aliases away: a local name that is not in the frozen list of local names of its function
(sa/known_units.json, "locals"), is bound exactly once, by a plain assignment, to a pure attribute chain (names and attribute reads only), is
used only later in the block that contains the binding, and whose chain is not reassigned in between, is replaced by the chain at every use.
Names the rules were written against are never touched.
"""

from __future__ import annotations

import ast
import copy

FuncNode = (ast.FunctionDef, ast.AsyncFunctionDef)


def _own(fn: ast.AST):
    """Nodes of fn's own scope (not nested function / lambda / class bodies; comprehensions are included)."""
    stack = list(ast.iter_child_nodes(fn))
    while stack:
        n = stack.pop()
        yield n
        if isinstance(n, FuncNode + (ast.Lambda, ast.ClassDef)):
            continue
        stack.extend(ast.iter_child_nodes(n))


def _simple_arg(e: ast.AST) -> bool:
    return isinstance(e, (ast.Name, ast.Constant)) or (isinstance(e, (ast.List, ast.Tuple, ast.Dict)) and all(isinstance(x, (ast.List, ast.Tuple, ast.Dict, ast.Load, ast.Constant)) for x in ast.walk(e)))


def _strip_lookup(e: ast.AST) -> ast.AST:
    """A pure lookup on top of an attribute chain: `<chain>.get(k[, default])` or `<chain>[k]` with simple k (reads a container, changes nothing)."""
    if isinstance(e, ast.Call) and isinstance(e.func, ast.Attribute) and e.func.attr == 'get' and 1 <= len(e.args) <= 2 and not e.keywords and all(_simple_arg(a) for a in e.args):
        return e.func.value
    if isinstance(e, ast.Subscript) and _simple_arg(e.slice):
        return e.value
    return e


def _pure_chain(e: ast.AST) -> bool:
    inner = _strip_lookup(e)
    if inner is not e and not isinstance(inner, ast.Attribute):
        return False  # a lookup on a bare local is not worth (or safe) to propagate
    e = inner
    while isinstance(e, ast.Attribute):
        e = e.value
    return isinstance(e, ast.Name)


def _root(e: ast.AST) -> str:
    e = _strip_lookup(e)
    while isinstance(e, ast.Attribute):
        e = e.value
    return e.id  # type: ignore[union-attr]


def _stores(fn: ast.AST) -> dict[str, list[ast.AST]]:
    out: dict[str, list[ast.AST]] = {}
    for n in _own(fn):
        if isinstance(n, ast.Name) and isinstance(n.ctx, (ast.Store, ast.Del)):
            out.setdefault(n.id, []).append(n)
        elif isinstance(n, ast.ExceptHandler) and n.name:
            out.setdefault(n.name, []).append(n)
        elif isinstance(n, (ast.Import, ast.ImportFrom)):
            for a in n.names:
                out.setdefault((a.asname or a.name).split('.')[0], []).append(n)
        elif isinstance(n, (ast.Global, ast.Nonlocal)):
            for nm in n.names:
                out.setdefault(nm, []).extend([n, n])
        elif isinstance(n, FuncNode + (ast.ClassDef,)):
            out.setdefault(n.name, []).append(n)
    return out


def _pos(n: ast.AST) -> tuple[int, int]:
    return (getattr(n, 'lineno', 0), getattr(n, 'col_offset', 0))


def _blocks(fn: ast.AST):
    for n in [fn] + list(_own(fn)):
        for f in ('body', 'orelse', 'finalbody'):
            b = getattr(n, f, None)
            if isinstance(b, list) and b and isinstance(b[0], ast.stmt):
                yield b
        if isinstance(n, ast.Try):
            for h in n.handlers:
                yield h.body
        if isinstance(n, ast.Match):
            for cs in n.cases:
                yield cs.body


class _Subst(ast.NodeTransformer):
    def __init__(self, name: str, chain: ast.AST):
        self.name, self.chain = name, chain

    def visit_Name(self, node):  # noqa: N802
        if node.id == self.name and isinstance(node.ctx, ast.Load):
            return ast.copy_location(copy.deepcopy(self.chain), node)
        return node

    def visit_FunctionDef(self, node):  # noqa: N802
        return node

    visit_AsyncFunctionDef = visit_FunctionDef  # noqa: N815
    visit_Lambda = visit_FunctionDef  # noqa: N815
    visit_ClassDef = visit_FunctionDef  # noqa: N815


def propagate_new_aliases(tree: ast.Module, module: str, known_locals: dict[str, list[str]] | None) -> list[str]:
    if known_locals is None:
        return []
    log: list[str] = []

    def visit(body: list[ast.stmt], prefix: str):
        for st in body:
            if isinstance(st, FuncNode):
                qn = f'{prefix}{st.name}'
                _one(st, qn)
                visit_nested(st, f'{qn}.')
            elif isinstance(st, ast.ClassDef):
                visit(st.body, f'{st.name}.')
            elif isinstance(st, (ast.If, ast.Try)):
                for f in ('body', 'orelse', 'finalbody'):
                    visit(getattr(st, f, []) or [], prefix)

    def visit_nested(fn, prefix: str):
        for n in _own(fn):
            if isinstance(n, FuncNode):
                qn = f'{prefix}{n.name}'
                _one(n, qn)
                visit_nested(n, f'{qn}.')

    def _one(fn, qn: str):
        known = set(known_locals.get(f'{module}::{qn}', []))
        changed = True
        while changed:
            changed = False
            stores = _stores(fn)
            params = {a.arg for a in fn.args.posonlyargs + fn.args.args + fn.args.kwonlyargs} | ({fn.args.vararg.arg} if fn.args.vararg else set()) | ({fn.args.kwarg.arg} if fn.args.kwarg else set())
            nested_names = {x.id for n in _own(fn) if isinstance(n, FuncNode + (ast.Lambda, ast.ClassDef)) for x in ast.walk(n) if isinstance(x, ast.Name)}
            for blk in _blocks(fn):
                for i, st in enumerate(blk):
                    tgt = val = None
                    if isinstance(st, ast.Assign) and len(st.targets) == 1 and isinstance(st.targets[0], ast.Name):
                        tgt, val = st.targets[0].id, st.value
                    elif isinstance(st, ast.AnnAssign) and isinstance(st.target, ast.Name) and st.value is not None:
                        tgt, val = st.target.id, st.value
                    if tgt is None or tgt in known or tgt in params or tgt.startswith('__inl_') or len(stores.get(tgt, [])) != 1 or not _pure_chain(val) or tgt in nested_names:
                        continue
                    if isinstance(val, ast.Name) and val.id == tgt:
                        continue
                    root = _root(val)
                    after = (st.end_lineno or st.lineno, 10 ** 6)
                    # every use is later in this very block (so the binding dominates it)
                    later = {id(x) for s2 in blk[i + 1:] for x in ast.walk(s2)}
                    uses = [n for n in _own(fn) if isinstance(n, ast.Name) and n.id == tgt and isinstance(n.ctx, ast.Load)]
                    if not uses or not all(id(u) in later for u in uses):
                        continue
                    last_use = max(_pos(u) for u in uses)
                    # the chain must denote the same object at every use: neither its root nor one of its attributes is assigned in between
                    names_in_val = {x.id for x in ast.walk(val) if isinstance(x, ast.Name)}
                    if any(_pos(s) > _pos(st) and _pos(s) <= last_use for nm_ in names_in_val for s in stores.get(nm_, [])):
                        continue
                    chain_txt = ast.unparse(_strip_lookup(val))
                    full_txt = ast.unparse(val)
                    attr_stores = [n for n in _own(fn) if isinstance(n, ast.Attribute) and isinstance(n.ctx, (ast.Store, ast.Del)) and (chain_txt == ast.unparse(n) or chain_txt.startswith(ast.unparse(n) + '.'))]
                    if any(_pos(st) < _pos(n) <= last_use for n in attr_stores):
                        continue
                    # a loop around the block re-executes the binding together with the uses: fine.  Do it.
                    sub = _Subst(tgt, val)
                    for j in range(i + 1, len(blk)):
                        blk[j] = sub.visit(blk[j])
                    blk[i] = ast.copy_location(ast.Pass(), st)
                    log.append(f'{module}:{qn} new alias `{tgt} = {full_txt}` propagated into its {len(uses)} use(s)')
                    changed = True
                    break
                if changed:
                    break

    _sync = {n.name for n in ast.walk(tree) if isinstance(n, ast.FunctionDef)}
    async_names = {n.name for n in ast.walk(tree) if isinstance(n, ast.AsyncFunctionDef)} - _sync

    def _temps(fn, qn: str):
        # a *new* local that is bound once and read once, in the statement right after its binding (other such bindings may stand in between): the value is written where it
        # is read.  `ok = a and not b` / `if ok:`  ->  `if a and not b:`;  `lock = get_lock()` / `async with lock:`  ->  `async with get_lock():`.  The value is evaluated
        # exactly once either way; only its position among the sub-expressions of the reading statement changes, which matters to no rule.
        known = set(known_locals.get(f'{module}::{qn}', []))
        changed = True
        while changed:
            changed = False
            stores = _stores(fn)
            params = {a.arg for a in fn.args.posonlyargs + fn.args.args + fn.args.kwonlyargs} | ({fn.args.vararg.arg} if fn.args.vararg else set()) | ({fn.args.kwarg.arg} if fn.args.kwarg else set())
            nested_names = {x.id for n in _own(fn) if isinstance(n, FuncNode + (ast.Lambda, ast.ClassDef)) for x in ast.walk(n) if isinstance(x, ast.Name)}
            loads: dict[str, list[ast.Name]] = {}
            for n in _own(fn):
                if isinstance(n, ast.Name) and isinstance(n.ctx, ast.Load):
                    loads.setdefault(n.id, []).append(n)

            def is_temp_def(st) -> str | None:
                if isinstance(st, ast.Assign) and len(st.targets) == 1 and isinstance(st.targets[0], ast.Name):
                    nm, val = st.targets[0].id, st.value
                elif isinstance(st, ast.AnnAssign) and isinstance(st.target, ast.Name) and st.value is not None:
                    nm, val = st.target.id, st.value
                else:
                    return None
                if nm in known or nm in params or nm.startswith('__inl_') or nm in nested_names or len(stores.get(nm, [])) != 1 or len(loads.get(nm, [])) != 1:
                    return None
                if any(isinstance(x, (ast.Await, ast.Yield, ast.YieldFrom, ast.NamedExpr, ast.Lambda, ast.ListComp, ast.SetComp, ast.DictComp, ast.GeneratorExp, ast.Starred)) for x in ast.walk(val)):
                    return None
                if isinstance(val, (ast.Constant, ast.List, ast.Dict, ast.Set, ast.Tuple)):
                    return None  # containers / literals bound to a name are data the function builds up, not a sub-expression with a name
                return nm

            def renamed_result(blk) -> bool:
                # `t = <anything>` / `x = t` right after it, t new and read nowhere else: `x = <anything>` (also for awaited calls: nothing moves)
                for i, st in enumerate(blk[:-1]):
                    nx = blk[i + 1]
                    if isinstance(st, ast.Assign) and len(st.targets) == 1 and isinstance(st.targets[0], ast.Name) and isinstance(nx, ast.Assign) and len(nx.targets) == 1 \
                            and isinstance(nx.targets[0], ast.Name) and isinstance(nx.value, ast.Name) and nx.value.id == st.targets[0].id:
                        t = st.targets[0].id
                        if t in known or t in params or t.startswith('__inl_') or t in nested_names or len(stores.get(t, [])) != 1 or len(loads.get(t, [])) != 1 or nx.targets[0].id == t:
                            continue
                        st.targets[0] = nx.targets[0]
                        blk[i + 1] = ast.copy_location(ast.Pass(), nx)
                        log.append(f'{module}:{qn} new single-use local `{t}` that only hands a result on to `{nx.targets[0].id}`: bound directly')
                        return True
                return False

            if any(renamed_result(blk) for blk in _blocks(fn)):
                changed = True
                continue
            for blk in _blocks(fn):
                for i, st in enumerate(blk):
                    nm = is_temp_def(st)
                    if nm is None:
                        continue
                    j = i + 1
                    def const_binding(s2) -> bool:
                        # `flag = False` / `result = None`: touches nothing the temporary's value depends on
                        return isinstance(s2, ast.Assign) and len(s2.targets) == 1 and isinstance(s2.targets[0], ast.Name) and isinstance(s2.value, ast.Constant) \
                            and not any(isinstance(x, ast.Name) and x.id == s2.targets[0].id for x in ast.walk(st.value))

                    while j < len(blk) and (is_temp_def(blk[j]) is not None or const_binding(blk[j])) and not any(isinstance(x, ast.Name) and x.id == nm for x in ast.walk(blk[j])):
                        j += 1
                    if j >= len(blk):
                        continue
                    use = loads[nm][0]
                    reader = blk[j]
                    rblk, rj = blk, j
                    while isinstance(reader, ast.Try) and reader.body:  # the first statement a `try:` executes is the first of its body
                        rblk, rj = reader.body, 0
                        reader = reader.body[0]
                    # the read must be in the reader's own header (not inside a nested block of it, where it could run later, repeatedly or not at all)
                    header = []
                    if isinstance(reader, (ast.If, ast.While)):
                        header = [reader.test]
                    elif isinstance(reader, (ast.For, ast.AsyncFor)):
                        header = [reader.iter]
                    elif isinstance(reader, (ast.With, ast.AsyncWith)):
                        header = [it.context_expr for it in reader.items]
                    elif isinstance(reader, (ast.Expr, ast.Assign, ast.AnnAssign, ast.AugAssign, ast.Return, ast.Raise, ast.Assert, ast.Delete)):
                        header = [reader]
                    if isinstance(reader, ast.While) or not any(any(x is use for x in ast.walk(h)) for h in header):
                        continue
                    if any(isinstance(x, (ast.Lambda, ast.ListComp, ast.SetComp, ast.DictComp, ast.GeneratorExp)) and any(y is use for y in ast.walk(x)) for h in header for x in ast.walk(h)):
                        continue
                    val = st.value
                    awaited_coro = isinstance(val, ast.Call) and (val.func.attr if isinstance(val.func, ast.Attribute) else getattr(val.func, 'id', None)) in async_names \
                        and any(isinstance(x, ast.Await) and x.value is use for h in header for x in ast.walk(h))
                    # (a coroutine object that is awaited by the next statement: creating it runs nothing, so `c = f(x)` / `await c` is `await f(x)`)
                    if not awaited_coro and (header == [reader] or isinstance(reader, (ast.For, ast.AsyncFor))) and any(isinstance(x, ast.Call) for x in ast.walk(val)):
                        continue  # the result of a call that a plain statement (or a loop) goes on to use stays a named value (what was dequeued, acquired, looked up): the rules follow it by name
                    sub = _Subst(nm, val)
                    if isinstance(reader, (ast.If,)):
                        reader.test = sub.visit(reader.test)
                    elif isinstance(reader, (ast.For, ast.AsyncFor)):
                        reader.iter = sub.visit(reader.iter)
                    elif isinstance(reader, (ast.With, ast.AsyncWith)):
                        for it in reader.items:
                            it.context_expr = sub.visit(it.context_expr)
                    else:
                        rblk[rj] = sub.visit(reader)
                    blk[i] = ast.copy_location(ast.Pass(), st)
                    log.append(f'{module}:{qn} new single-use local `{nm} = {ast.unparse(val)[:50]}` written where it is read')
                    changed = True
                    break
                if changed:
                    break

    def _pure_locals(fn, qn: str):
        # a *new* local bound once to a value computed from local names and constants alone (arithmetic, comparisons, boolean operators, isinstance): every read that follows
        # in the same block is that value, as long as none of the names it is computed from is rebound there.  `left = n - k` / `if left > 0:` -> `if n - k > 0:`.
        known = set(known_locals.get(f'{module}::{qn}', []))
        changed = True
        while changed:
            changed = False
            stores = _stores(fn)
            params = {a.arg for a in fn.args.posonlyargs + fn.args.args + fn.args.kwonlyargs} | ({fn.args.vararg.arg} if fn.args.vararg else set()) | ({fn.args.kwarg.arg} if fn.args.kwarg else set())
            nested_names = {x.id for n in _own(fn) if isinstance(n, FuncNode + (ast.Lambda, ast.ClassDef)) for x in ast.walk(n) if isinstance(x, ast.Name)}
            loads: dict[str, list[ast.Name]] = {}
            for n in _own(fn):
                if isinstance(n, ast.Name) and isinstance(n.ctx, ast.Load):
                    loads.setdefault(n.id, []).append(n)

            def pure(e) -> bool:
                if isinstance(e, ast.Constant):
                    return True
                if isinstance(e, ast.Name):
                    return e.id not in nested_names
                if isinstance(e, ast.UnaryOp):
                    return pure(e.operand)
                if isinstance(e, ast.BinOp):
                    return isinstance(e.op, (ast.Add, ast.Sub, ast.Mult)) and pure(e.left) and pure(e.right)
                if isinstance(e, ast.BoolOp):
                    return all(pure(v) for v in e.values)
                if isinstance(e, ast.Compare):
                    return pure(e.left) and all(pure(v) for v in e.comparators)
                if isinstance(e, ast.Call) and isinstance(e.func, ast.Name) and e.func.id == 'isinstance' and len(e.args) == 2 and not e.keywords:
                    return pure(e.args[0]) and all(isinstance(x, (ast.Name, ast.Attribute, ast.Tuple, ast.Load)) for x in ast.walk(e.args[1]))
                return False

            for blk in _blocks(fn):
                for i, st in enumerate(blk):
                    if not (isinstance(st, ast.Assign) and len(st.targets) == 1 and isinstance(st.targets[0], ast.Name)):
                        continue
                    nm, val = st.targets[0].id, st.value
                    if nm in known or nm in params or nm.startswith('__inl_') or nm in nested_names or len(stores.get(nm, [])) != 1 or not loads.get(nm):
                        continue
                    if isinstance(val, (ast.Constant, ast.Name)) or not pure(val):
                        continue
                    after = [x for s_ in blk[i + 1:] for x in ast.walk(s_)]
                    after_ids = {id(x) for x in after}
                    if not all(id(l) in after_ids for l in loads[nm]):
                        continue
                    operands = {x.id for x in ast.walk(val) if isinstance(x, ast.Name)}
                    if any(isinstance(x, ast.Name) and isinstance(x.ctx, (ast.Store, ast.Del)) and x.id in operands for x in after) or any(isinstance(x, ast.ExceptHandler) and x.name in operands for x in after):
                        continue
                    sub = _Subst(nm, val)
                    for k in range(i + 1, len(blk)):
                        blk[k] = sub.visit(blk[k])
                    blk[i] = ast.copy_location(ast.Pass(), st)
                    log.append(f'{module}:{qn} new local `{nm} = {ast.unparse(val)[:50]}` (a value of local names only) written where it is read')
                    changed = True
                    break
                if changed:
                    break

    def _conditional_alias(fn, qn: str):
        # a *new* local `x = base.attr... if base else None` (bound once): "x is None" is "not base or base.attr is None"; where x is used as an object it is base.attr
        # (x is used as an object only where it was tested to be there: otherwise both spellings raise AttributeError on None)
        known = set(known_locals.get(f'{module}::{qn}', []))
        stores = _stores(fn)
        params = {a.arg for a in fn.args.posonlyargs + fn.args.args + fn.args.kwonlyargs}
        nested_names = {x.id for n in _own(fn) if isinstance(n, FuncNode + (ast.Lambda, ast.ClassDef)) for x in ast.walk(n) if isinstance(x, ast.Name)}
        for blk in _blocks(fn):
            for i, st in enumerate(blk):
                if not (isinstance(st, ast.Assign) and len(st.targets) == 1 and isinstance(st.targets[0], ast.Name) and isinstance(st.value, ast.IfExp)):
                    continue
                nm, v = st.targets[0].id, st.value
                if nm in known or nm in params or nm in nested_names or len(stores.get(nm, [])) != 1:
                    continue
                if isinstance(v.orelse, ast.Constant) and v.orelse.value is None and isinstance(v.test, ast.Name):
                    base, chain = v.test.id, v.body
                elif isinstance(v.body, ast.Constant) and v.body.value is None and isinstance(v.test, ast.UnaryOp) and isinstance(v.test.op, ast.Not) and isinstance(v.test.operand, ast.Name):
                    base, chain = v.test.operand.id, v.orelse
                else:
                    continue
                root = chain
                while isinstance(root, ast.Attribute):
                    root = root.value
                if not (isinstance(chain, ast.Attribute) and isinstance(root, ast.Name) and root.id == base) or len(stores.get(base, [])) > 1:
                    continue

                def there(neg: bool):
                    b = ast.Name(id=base, ctx=ast.Load())
                    t = ast.BoolOp(op=ast.And(), values=[b, ast.Compare(left=copy.deepcopy(chain), ops=[ast.IsNot()], comparators=[ast.Constant(value=None)])])
                    return ast.UnaryOp(op=ast.Not(), operand=t) if neg else t

                class _R(ast.NodeTransformer):
                    def visit_Compare(self, node):  # noqa: N802
                        if len(node.ops) == 1 and isinstance(node.left, ast.Name) and node.left.id == nm and isinstance(node.ops[0], (ast.Is, ast.IsNot)) \
                                and isinstance(node.comparators[0], ast.Constant) and node.comparators[0].value is None:
                            return ast.copy_location(there(isinstance(node.ops[0], ast.Is)), node)
                        return self.generic_visit(node)

                    def visit_Name(self, node):  # noqa: N802
                        if node.id == nm and isinstance(node.ctx, ast.Load):
                            return ast.copy_location(copy.deepcopy(chain), node)
                        return node

                    def visit_FunctionDef(self, node):  # noqa: N802
                        return node

                    visit_AsyncFunctionDef = visit_Lambda = visit_FunctionDef  # noqa: N815

                for k in range(i + 1, len(blk)):
                    blk[k] = _R().visit(blk[k])
                blk[i] = ast.copy_location(ast.Pass(), st)
                log.append(f'{module}:{qn} new conditional alias `{nm} = {ast.unparse(v)[:50]}` written out at its uses')
                ast.fix_missing_locations(fn)
                return _conditional_alias(fn, qn)

    def _tuple_carrier(fn, qn: str):
        # a *new* local that carries a tuple from where it is built to the one place where it is taken apart: `t = (a, b, c)` ... `x, y, z = t` (x, y, z new, bound once)
        # is `x = a; y = b; z = c` where t was bound (the elements are evaluated there either way; nothing else reads t, x, y or z in between)
        known = set(known_locals.get(f'{module}::{qn}', []))
        stores = _stores(fn)
        loads: dict[str, list[ast.Name]] = {}
        for n in ast.walk(fn):
            if isinstance(n, ast.Name) and isinstance(n.ctx, ast.Load):
                loads.setdefault(n.id, []).append(n)
        for blk in _blocks(fn):
            for i, st in enumerate(blk):
                if not (isinstance(st, ast.Assign) and len(st.targets) == 1 and isinstance(st.targets[0], ast.Name) and isinstance(st.value, ast.Tuple)):
                    continue
                t = st.targets[0].id
                if t in known or len(stores.get(t, [])) != 1 or len(loads.get(t, [])) != 1:
                    continue
                use = loads[t][0]
                unpack = next((n for n in ast.walk(fn) if isinstance(n, ast.Assign) and n.value is use and len(n.targets) == 1 and isinstance(n.targets[0], ast.Tuple)), None)
                if unpack is None or len(unpack.targets[0].elts) != len(st.value.elts):
                    continue
                names = [x.id for x in unpack.targets[0].elts if isinstance(x, ast.Name)]
                if len(names) != len(st.value.elts) or any(len(stores.get(nm, [])) != 1 for nm in names):
                    continue
                blk[i:i + 1] = [ast.copy_location(ast.Assign(targets=[ast.Name(id=nm, ctx=ast.Store())], value=v, type_comment=None), st) for nm, v in zip(names, st.value.elts)]
                for b2 in _blocks(fn):
                    for k, s2 in enumerate(b2):
                        if s2 is unpack:
                            b2[k] = ast.copy_location(ast.Pass(), unpack)
                log.append(f'{module}:{qn} new tuple `{t}` that is only taken apart again (`{ast.unparse(unpack)[:50]}`): its elements are bound where it was built')
                ast.fix_missing_locations(fn)
                return _tuple_carrier(fn, qn)

    def _filtered_loops(fn, qn: str):
        # a *new* local that holds a filtered list and is only iterated, by the `for` right after it, whose body does not suspend:
        #   todo = [x for x in IT if P] ; for y in todo: BODY      ->      for y in IT: if P[y/x]: BODY
        # (the elements BODY runs for are those of IT that satisfy P; without a suspension in BODY nothing else can change P or IT between the filter and the loop)
        known = set(known_locals.get(f'{module}::{qn}', []))
        changed = True
        while changed:
            changed = False
            stores = _stores(fn)
            nested_names = {x.id for n in _own(fn) if isinstance(n, FuncNode + (ast.Lambda, ast.ClassDef)) for x in ast.walk(n) if isinstance(x, ast.Name)}
            loads: dict[str, list[ast.Name]] = {}
            for n in ast.walk(fn):
                if isinstance(n, ast.Name) and isinstance(n.ctx, ast.Load):
                    loads.setdefault(n.id, []).append(n)
            for blk in _blocks(fn):
                for i, st in enumerate(blk[:-1]):
                    if not (isinstance(st, (ast.Assign, ast.AnnAssign)) and st.value is not None):
                        continue
                    tgt = st.targets[0] if isinstance(st, ast.Assign) and len(st.targets) == 1 else getattr(st, 'target', None)
                    val, loop = st.value, blk[i + 1]
                    if isinstance(val, ast.Call) and isinstance(val.func, ast.Name) and val.func.id == 'list' and len(val.args) == 1 and not val.keywords:
                        val = val.args[0]
                    if not (isinstance(tgt, ast.Name) and isinstance(val, (ast.ListComp, ast.GeneratorExp)) and isinstance(loop, ast.For) and not loop.orelse):
                        continue
                    nm = tgt.id
                    if nm in known or nm in nested_names or len(stores.get(nm, [])) != 1 or len(loads.get(nm, [])) != 1 or not (isinstance(loop.iter, ast.Name) and loop.iter.id == nm):
                        continue
                    if len(val.generators) != 1 or val.generators[0].is_async or not val.generators[0].ifs:
                        continue
                    gen = val.generators[0]
                    if not (isinstance(gen.target, ast.Name) and isinstance(val.elt, ast.Name) and val.elt.id == gen.target.id and isinstance(loop.target, ast.Name)):
                        continue
                    if any(isinstance(x, (ast.Await, ast.Yield, ast.YieldFrom, ast.AsyncFor, ast.AsyncWith)) for b in loop.body for x in ast.walk(b)):
                        continue
                    cond = gen.ifs[0] if len(gen.ifs) == 1 else ast.BoolOp(op=ast.And(), values=list(gen.ifs))
                    cond = _Subst(gen.target.id, ast.Name(id=loop.target.id, ctx=ast.Load())).visit(copy.deepcopy(cond))
                    loop.iter = gen.iter
                    loop.body = [ast.copy_location(ast.If(test=cond, body=loop.body, orelse=[]), loop.body[0])]
                    blk[i] = ast.copy_location(ast.Pass(), st)
                    log.append(f'{module}:{qn} new filtered work list `{nm}` and the loop over it read as one filtered loop over `{ast.unparse(gen.iter)[:50]}`')
                    changed = True
                    break
                if changed:
                    break

    def visit2(body: list[ast.stmt], prefix: str):
        for st in body:
            if isinstance(st, FuncNode):
                qn = f'{prefix}{st.name}'
                def all_levels(fn_, q_):
                    yield fn_, q_
                    for n_ in _own(fn_):
                        if isinstance(n_, FuncNode):
                            yield from all_levels(n_, f'{q_}.{n_.name}')

                for n, nq in all_levels(st, qn):
                    _conditional_alias(n, nq)
                    _tuple_carrier(n, nq)
                    _temps(n, nq)
                    _pure_locals(n, nq)
                    _filtered_loops(n, nq)
            elif isinstance(st, ast.ClassDef):
                visit2(st.body, f'{st.name}.')
            elif isinstance(st, (ast.If, ast.Try)):
                for f in ('body', 'orelse', 'finalbody'):
                    visit2(getattr(st, f, []) or [], prefix)

    visit(tree.body, '')
    visit2(tree.body, '')

    class _QueueEmpty(ast.NodeTransformer):
        # `<..>.event_queue.empty()` is `<..>.event_queue.qsize() == 0`, and its negation `<..>.event_queue.qsize() > 0` (asyncio.Queue: empty() is "no items", qsize() their number)
        def visit_UnaryOp(self, node):  # noqa: N802
            self.generic_visit(node)
            if isinstance(node.op, ast.Not) and isinstance(node.operand, ast.Compare) and getattr(node.operand, '_was_empty', False):
                node.operand.ops = [ast.Gt()]
                return node.operand
            return node

        def visit_Call(self, node):  # noqa: N802
            self.generic_visit(node)
            if isinstance(node.func, ast.Attribute) and node.func.attr == 'empty' and not node.args and not node.keywords and isinstance(node.func.value, ast.Attribute) and node.func.value.attr == 'event_queue':
                new = ast.Compare(left=ast.Call(func=ast.Attribute(value=node.func.value, attr='qsize', ctx=ast.Load()), args=[], keywords=[]), ops=[ast.Eq()], comparators=[ast.Constant(value=0)])
                new._was_empty = True  # type: ignore[attr-defined]
                log.append(f'{module}: `{ast.unparse(node)}` read as `{ast.unparse(new)}`')
                return ast.copy_location(new, node)
            return node

    _QueueEmpty().visit(tree)

    def _negated(p: ast.AST) -> ast.AST | None:
        if isinstance(p, ast.UnaryOp) and isinstance(p.op, ast.Not):
            return p.operand
        if isinstance(p, ast.Compare) and len(p.ops) == 1 and isinstance(p.ops[0], (ast.NotIn, ast.NotEq, ast.IsNot)):
            pos = {ast.NotIn: ast.In, ast.NotEq: ast.Eq, ast.IsNot: ast.Is}[type(p.ops[0])]()
            return ast.copy_location(ast.Compare(left=p.left, ops=[pos], comparators=p.comparators), p)
        return None

    class _Quantifier(ast.NodeTransformer):
        # `any(<negated P> for ...)` is `not all(<P> for ...)` (the library itself spells its quantified tests with all())
        def visit_Call(self, node):  # noqa: N802
            self.generic_visit(node)
            if isinstance(node.func, ast.Name) and node.func.id == 'any' and len(node.args) == 1 and not node.keywords and isinstance(node.args[0], (ast.GeneratorExp, ast.ListComp)):
                pos = _negated(node.args[0].elt)
                if pos is not None:
                    gen = ast.copy_location(ast.GeneratorExp(elt=pos, generators=node.args[0].generators), node.args[0])
                    new = ast.UnaryOp(op=ast.Not(), operand=ast.copy_location(ast.Call(func=ast.Name(id='all', ctx=ast.Load()), args=[gen], keywords=[]), node))
                    log.append(f'{module}: `{ast.unparse(node)[:70]}` read as `{ast.unparse(new)[:70]}`')
                    return ast.copy_location(new, node)
            return node

        def visit_UnaryOp(self, node):  # noqa: N802
            self.generic_visit(node)
            if isinstance(node.op, ast.Not) and isinstance(node.operand, ast.UnaryOp) and isinstance(node.operand.op, ast.Not) and isinstance(node.operand.operand, ast.Call) \
                    and isinstance(node.operand.operand.func, ast.Name) and node.operand.operand.func.id == 'all':
                return node.operand.operand  # not not all(...) is all(...): a bool either way
            return node

    _Quantifier().visit(tree)

    class _ChildrenInPlace(ast.NodeTransformer):
        # `for r in X.event_results.values(): for c in r.event_children: BODY` (nothing else in the outer body, no `break`) walks the same children in the same order as
        # `for c in X.event_children: BODY`: the property is that concatenation (its body is checked by C03.1)
        def visit_For(self, node):  # noqa: N802
            self.generic_visit(node)
            if node.orelse or len(node.body) != 1 or not isinstance(node.body[0], ast.For) or not isinstance(node.target, ast.Name):
                return node
            inner = node.body[0]
            it = node.iter
            if isinstance(it, ast.Call) and isinstance(it.func, ast.Name) and it.func.id in ('list', 'tuple') and len(it.args) == 1:
                it = it.args[0]
            if not (isinstance(it, ast.Call) and isinstance(it.func, ast.Attribute) and it.func.attr == 'values' and not it.args and isinstance(it.func.value, ast.Attribute) and it.func.value.attr == 'event_results'):
                return node
            if inner.orelse or not (isinstance(inner.iter, ast.Attribute) and inner.iter.attr == 'event_children' and isinstance(inner.iter.value, ast.Name) and inner.iter.value.id == node.target.id):
                return node
            r = node.target.id
            if any(isinstance(x, ast.Name) and x.id == r for b in inner.body for x in ast.walk(b)):
                return node

            def has_own_break(stmts) -> bool:
                for st in stmts:
                    if isinstance(st, ast.Break):
                        return True
                    if isinstance(st, (ast.For, ast.AsyncFor, ast.While, ast.FunctionDef, ast.AsyncFunctionDef, ast.ClassDef)):
                        continue
                    for f in ('body', 'orelse', 'finalbody'):
                        if has_own_break(getattr(st, f, []) or []):
                            return True
                    for h in getattr(st, 'handlers', []) or []:
                        if has_own_break(h.body):
                            return True
                return False

            if has_own_break(inner.body):
                return node
            new = ast.For(target=inner.target, iter=ast.Attribute(value=it.func.value.value, attr='event_children', ctx=ast.Load()), body=inner.body, orelse=[], type_comment=None)
            log.append(f'{module}: children walked result by result read as `for {ast.unparse(inner.target)} in {ast.unparse(new.iter)}`')
            return ast.copy_location(new, node)

    if any(isinstance(n, ast.Attribute) and n.attr == 'event_children' for n in ast.walk(tree)):
        _ChildrenInPlace().visit(tree)
    if log:
        ast.fix_missing_locations(tree)
    return log


def local_names(fn: ast.AST) -> list[str]:
    return sorted(_stores(fn))
