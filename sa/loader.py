"""Parse the library, index units (functions, methods, nested functions), classes and annotations.

The *resolved program* the rules query: a symbol index plus a small annotation-driven receiver
type inferencer (see ``infer``).  Anything a rule needs that cannot be found raises AnchorError,
which the driver turns into ANALYSIS-ERROR / exit 2 (never a silent pass, never a VIOLATION).
"""

from __future__ import annotations

import ast
import copy
import hashlib
import os
from dataclasses import dataclass, field
from typing import Any, Iterator

from .alias import propagate_new_aliases  # noqa: E402
from .loops import normalise_counting_loops  # noqa: E402
from .simplify import simplify_after_folding  # noqa: E402
from .inline import fold_new_helpers, load_known, load_known_locals  # noqa: E402

LIB_FILES = ('bubus/service.py', 'bubus/models.py', 'bubus/helpers.py', 'bubus/logging.py', 'bubus/__init__.py')


class AnchorError(Exception):
    """A named anchor (module, class, function, statement pattern) no longer resolves."""


def default_root() -> str:
    return os.environ.get('BUBUS_SA_ROOT', '/repo')


def U(node: ast.AST | None) -> str:
    """Normalised text of a node (formatting- and comment-independent)."""
    if node is None:
        return ''
    try:
        return ast.unparse(node)
    except Exception:  # pragma: no cover
        return ast.dump(node)


def normalise_syntax(tree: ast.AST) -> ast.AST:
    """`try: ... except* T:` is modelled as `try: ... except T:` (the handler also sees the ExceptionGroup that carries T; the unmatched rest of
    a group is re-raised, which the typed exceptional edges of the enclosing construct already allow for every type the body may raise)."""
    star = getattr(ast, 'TryStar', None)
    if star is None:
        return tree

    class T(ast.NodeTransformer):
        def visit_TryStar(self, node):  # noqa: N802
            self.generic_visit(node)
            new = ast.Try(body=node.body, handlers=node.handlers, orelse=node.orelse, finalbody=node.finalbody)
            new.is_star = True  # type: ignore[attr-defined]
            return ast.copy_location(new, node)

    tree = T().visit(tree)
    return _MatchToIf().visit(tree)


class _MatchToIf(ast.NodeTransformer):
    """`match subject:` over literal / singleton / class / wildcard patterns is the corresponding if / elif chain (other patterns stay a Match
    node, which the CFG treats as a non-deterministic choice between its cases)."""

    counter = 0

    def _test(self, subj: ast.expr, pat: ast.pattern) -> ast.expr | None:
        import copy

        s = lambda: copy.deepcopy(subj)  # noqa: E731
        if isinstance(pat, ast.MatchValue):
            return ast.Compare(left=s(), ops=[ast.Eq()], comparators=[pat.value])
        if isinstance(pat, ast.MatchSingleton):
            return ast.Compare(left=s(), ops=[ast.Is()], comparators=[ast.Constant(value=pat.value)])
        if isinstance(pat, ast.MatchAs) and pat.pattern is None and pat.name is None:
            return ast.Constant(value=True)
        if isinstance(pat, ast.MatchOr):
            parts = [self._test(subj, p) for p in pat.patterns]
            return None if any(p is None for p in parts) else ast.BoolOp(op=ast.Or(), values=parts)
        if isinstance(pat, ast.MatchClass) and not pat.patterns and not pat.kwd_patterns:
            return ast.Call(func=ast.Name(id='isinstance', ctx=ast.Load()), args=[s(), pat.cls], keywords=[])
        return None

    def visit_Match(self, node):  # noqa: N802
        self.generic_visit(node)
        pre: list[ast.stmt] = []
        subj = node.subject
        if not isinstance(subj, (ast.Name, ast.Attribute, ast.Constant)):
            _MatchToIf.counter += 1
            nm = f'__inl_match_{_MatchToIf.counter}'
            pre.append(ast.copy_location(ast.Assign(targets=[ast.Name(id=nm, ctx=ast.Store())], value=subj), node))
            subj = ast.Name(id=nm, ctx=ast.Load())
        tests = []
        for case in node.cases:
            t = self._test(subj, case.pattern)
            if t is None:
                return node
            if case.guard is not None:
                t = ast.BoolOp(op=ast.And(), values=[t, case.guard])
            tests.append(t)
        chain: list[ast.stmt] = []
        for case, t in reversed(list(zip(node.cases, tests))):
            if isinstance(t, ast.Constant) and t.value is True:
                chain = list(case.body)
            else:
                chain = [ast.copy_location(ast.If(test=t, body=list(case.body), orelse=chain), case.pattern)]
        out = pre + (chain or [ast.copy_location(ast.Pass(), node)])
        for x in out:
            ast.fix_missing_locations(x)
        return out


def set_parents(tree: ast.AST) -> None:
    for parent in ast.walk(tree):
        for child in ast.iter_child_nodes(parent):
            child._parent = parent  # type: ignore[attr-defined]


def parent(node: ast.AST) -> ast.AST | None:
    return getattr(node, '_parent', None)


def ancestors(node: ast.AST) -> Iterator[ast.AST]:
    p = parent(node)
    while p is not None:
        yield p
        p = parent(p)


FuncNode = (ast.FunctionDef, ast.AsyncFunctionDef)


_OWN_CACHE: dict[int, tuple[ast.AST, list[ast.AST]]] = {}


def own_nodes(fn: ast.AST) -> list[ast.AST]:
    """All nodes lexically inside *fn* that belong to it (does not descend into nested defs/lambdas/classes)."""
    hit = _OWN_CACHE.get(id(fn))
    if hit is not None and hit[0] is fn:
        return hit[1]
    out: list[ast.AST] = []
    stack = list(ast.iter_child_nodes(fn))
    while stack:
        n = stack.pop()
        out.append(n)
        if isinstance(n, FuncNode + (ast.Lambda, ast.ClassDef)):
            continue
        stack.extend(ast.iter_child_nodes(n))
    _OWN_CACHE[id(fn)] = (fn, out)
    return out


def own_nodes_with_lambdas(fn: ast.AST) -> Iterator[ast.AST]:
    """Like own_nodes but descends into lambdas (they run in the unit's dynamic extent or are callbacks it builds)."""
    stack = list(ast.iter_child_nodes(fn))
    while stack:
        n = stack.pop()
        yield n
        if isinstance(n, FuncNode + (ast.ClassDef,)):
            continue
        stack.extend(ast.iter_child_nodes(n))


def stmt_of(node: ast.AST) -> ast.stmt:
    """The innermost statement containing *node*."""
    n: ast.AST | None = node
    while n is not None and not isinstance(n, ast.stmt):
        n = parent(n)
    if n is None:
        raise AnchorError(f'no enclosing statement for {U(node)}')
    return n  # type: ignore[return-value]


# --------------------------------------------------------------------------------------------
# simple structural types
# --------------------------------------------------------------------------------------------


@dataclass(frozen=True)
class Ty:
    kind: str  # 'cls' | 'dict' | 'list' | 'set' | 'tuple' | 'lib'
    name: str = ''
    args: tuple['Ty | None', ...] = ()

    def __str__(self) -> str:
        if self.kind in ('cls', 'lib'):
            return self.name
        return f'{self.kind}[{", ".join(str(a) for a in self.args)}]'


CONTAINER_NAMES = {
    'dict': 'dict', 'Dict': 'dict', 'defaultdict': 'dict',
    'list': 'list', 'List': 'list', 'deque': 'list', 'Sequence': 'list', 'Iterable': 'list',
    'set': 'set', 'Set': 'set', 'WeakSet': 'set', 'frozenset': 'set',
    'tuple': 'tuple', 'Tuple': 'tuple',
}  # fmt: skip


@dataclass
class Unit:
    module: str  # 'bubus/service.py'
    qualname: str  # 'EventBus.step', 'BaseEvent.__await__.wait_for_handlers_to_complete_then_return_event'
    node: ast.FunctionDef | ast.AsyncFunctionDef
    cls: str | None  # nearest enclosing class name
    outer: 'Unit | None' = None  # lexically enclosing unit (for closures)

    @property
    def is_async(self) -> bool:
        return isinstance(self.node, ast.AsyncFunctionDef)

    @property
    def key(self) -> tuple[str, str]:
        return (self.module, self.qualname)

    @property
    def name(self) -> str:
        return self.node.name

    def __str__(self) -> str:
        return f'{self.module}:{self.qualname}'

    def __hash__(self) -> int:
        return hash(self.key)

    def __eq__(self, other: object) -> bool:
        return isinstance(other, Unit) and other.key == self.key

    def loc(self, node: ast.AST | None = None) -> str:
        n = node if node is not None else self.node
        return f'{self.module}:{getattr(n, "lineno", "?")}'

    def params(self) -> list[str]:
        a = self.node.args
        names = [x.arg for x in a.posonlyargs + a.args + a.kwonlyargs]
        if a.vararg:
            names.append(a.vararg.arg)
        if a.kwarg:
            names.append(a.kwarg.arg)
        return names


@dataclass
class ClassInfo:
    name: str
    module: str
    node: ast.ClassDef
    bases: list[str]
    methods: dict[str, Unit] = field(default_factory=dict)
    properties: dict[str, Unit] = field(default_factory=dict)
    attr_ann: dict[str, ast.expr] = field(default_factory=dict)  # class-level `x: T` annotations
    class_assigns: dict[str, ast.expr] = field(default_factory=dict)  # class-level `x = expr`


@dataclass
class ModuleInfo:
    path: str
    source: str
    tree: ast.Module
    functions: dict[str, Unit] = field(default_factory=dict)  # module-level functions
    imports: dict[str, str] = field(default_factory=dict)  # local name -> 'module.attr' / 'module'
    globals_ann: dict[str, ast.expr] = field(default_factory=dict)
    globals_assign: dict[str, ast.expr] = field(default_factory=dict)


def _decorator_names(fn: ast.AST) -> list[str]:
    return [U(d) for d in getattr(fn, 'decorator_list', [])]


class Program:
    def __init__(self, root: str | None = None):
        self.root = root or default_root()
        self.modules: dict[str, ModuleInfo] = {}
        self.units: dict[tuple[str, str], Unit] = {}
        self.classes: dict[str, ClassInfo] = {}
        self.digest = ''
        self.fold_log: list[str] = []  # new private helpers folded into their callers (sa/inline.py)
        self.folded_kept: set[tuple[str, str]] = set()  # new public methods that were folded into every library call site and kept as units of their own
        self._known = load_known()
        self._known_locals = load_known_locals()
        try:
            import json as _json

            _ku = _json.load(open(os.path.join(os.path.dirname(os.path.abspath(__file__)), 'known_units.json'), encoding='utf-8'))
            self._known_attrs = _ku.get('attrs')
            self._known_globals = _ku.get('globals')
        except Exception:
            self._known_attrs = None
            self._known_globals = None
        self.memos: dict[str, dict] = {}
        self._load()

    # ------------------------------------------------------------------ loading
    def _fold_across_modules(self, parsed: list[tuple[str, str, ast.Module]]) -> None:
        """A *new* method (not in sa/known_units.json) that is called from another module is folded into those call sites too.  Call sites are recognised by name, so this is done
        only for method names that are defined exactly once in the whole library and are not the name of any unit the rules know.  Module-level names of the method's own module
        that the spliced code mentions are made visible in the calling module by a synthetic `from <module> import <name>` (analysis only)."""
        known = self._known or set()
        known_names = {qn.split('.')[-1] for _, qn in known}
        defs: dict[str, list[tuple[str, str, ast.AST, str]]] = {}
        for rel, _src, tree in parsed:
            for st in tree.body:
                if isinstance(st, ast.ClassDef):
                    for m in st.body:
                        if isinstance(m, (ast.FunctionDef, ast.AsyncFunctionDef)):
                            defs.setdefault(m.name, []).append((rel, f'{st.name}.{m.name}', m, st.name))
                elif isinstance(st, (ast.FunctionDef, ast.AsyncFunctionDef)):
                    defs.setdefault(st.name, []).append((rel, st.name, st, ''))
        for rel, _src, tree in parsed:
            foreign = [d[0] for name, d in defs.items() if len(d) == 1 and d[0][3] and d[0][0] != rel and (d[0][0], d[0][1]) not in known and name not in known_names
                       and not (name.startswith('__') and name.endswith('__'))]
            if not foreign:
                continue
            used = [f for f in foreign if any(isinstance(n, ast.Attribute) and n.attr == f[2].name for n in ast.walk(tree))]
            if not used:
                continue
            before = {id(n) for n in ast.walk(tree)}
            log = fold_new_helpers(tree, rel, self._known, foreign=used)
            self.fold_log.extend(log)
            if not any('the definition stays in its own module' in ln for ln in log):
                continue
            # names of the callee's module that the spliced code uses
            here = {n.id for n in ast.walk(tree) if isinstance(n, ast.Name) and isinstance(n.ctx, ast.Store)} | {a.asname or a.name.split('.')[0] for n in ast.walk(tree) if isinstance(n, (ast.Import, ast.ImportFrom)) for a in n.names} \
                | {n.name for n in ast.walk(tree) if isinstance(n, (ast.FunctionDef, ast.AsyncFunctionDef, ast.ClassDef))} | {a.arg for n in ast.walk(tree) if isinstance(n, ast.arguments) for a in n.args + n.kwonlyargs + n.posonlyargs}
            for hrel in {f[0] for f in used}:
                htree = next(t for r, _s, t in parsed if r == hrel)
                top = {n.name for n in htree.body if isinstance(n, (ast.FunctionDef, ast.AsyncFunctionDef, ast.ClassDef))} \
                    | {t.id for n in htree.body if isinstance(n, (ast.Assign, ast.AnnAssign)) for t in (n.targets if isinstance(n, ast.Assign) else [n.target]) if isinstance(t, ast.Name)} \
                    | {a.asname or a.name.split('.')[0] for n in htree.body if isinstance(n, (ast.Import, ast.ImportFrom)) for a in n.names}
                new_names = sorted({n.id for n in ast.walk(tree) if id(n) not in before and isinstance(n, ast.Name) and isinstance(n.ctx, ast.Load) and n.id in top and n.id not in here})
                if new_names:
                    # re-export through the callee's module: an imported name resolves one hop further
                    imp_of = {a.asname or a.name.split('.')[0]: n for n in htree.body if isinstance(n, (ast.Import, ast.ImportFrom)) for a in n.names}
                    direct = [x for x in new_names if x not in imp_of]
                    if direct:
                        tree.body.insert(0, ast.ImportFrom(module=hrel[:-3].replace('/', '.'), names=[ast.alias(name=x, asname=None) for x in direct], level=0))
                    for x in new_names:
                        if x in imp_of:
                            tree.body.insert(0, copy.deepcopy(imp_of[x]))
                    ast.fix_missing_locations(tree)

        # a new *private* method whose every use (all of them in other modules) has been folded away is not a unit any more: as with helpers folded inside their own module, the
        # definition goes (a public one stays: it can be called from outside, and `folded_kept` tells the context-dependent rules where it was judged)
        for name, d in defs.items():
            if len(d) != 1 or not d[0][3] or not name.startswith('_') or (name.startswith('__') and name.endswith('__')) or (d[0][0], d[0][1]) in known:
                continue
            hrel, qn, node, cls = d[0]
            if not any(f'{hrel}:{qn} folded into its' in ln and 'the definition stays in its own module' in ln for ln in self.fold_log):
                continue
            still_used = False
            for rel, _src, tree in parsed:
                for n in ast.walk(tree):
                    if isinstance(n, ast.Attribute) and n.attr == name:
                        still_used = True
                    elif isinstance(n, ast.Name) and n.id == name and isinstance(n.ctx, ast.Load):
                        still_used = True
            if still_used:
                continue
            htree = next(t for r, _s, t in parsed if r == hrel)
            for st in htree.body:
                if isinstance(st, ast.ClassDef) and st.name == cls and any(m is node for m in st.body):
                    st.body[:] = [m for m in st.body if m is not node] or [ast.copy_location(ast.Pass(), node)]
                    self.fold_log.append(f'{hrel}:{qn} has no use left after folding: the definition is dropped')

    def _load(self) -> None:
        h = hashlib.sha256()
        parsed: list[tuple[str, str, ast.Module]] = []
        for rel in LIB_FILES:
            p = os.path.join(self.root, rel)
            if not os.path.exists(p):
                if rel.endswith('__init__.py') or rel.endswith('logging.py'):
                    continue
                raise AnchorError(f'library file missing: {rel}')
            src = open(p, encoding='utf-8').read()
            h.update(rel.encode() + b'\0' + src.encode())
            try:
                tree = ast.parse(src, filename=p)
            except SyntaxError as e:
                raise AnchorError(f'{rel} does not parse: {e}')
            tree = normalise_syntax(tree)
            self.fold_log.extend(fold_new_helpers(tree, rel, self._known))
            parsed.append((rel, src, tree))
        from .consts import write_out_new_constants

        self.fold_log.extend(write_out_new_constants([(rel, tree) for rel, _s, tree in parsed], self._known_globals, self._known_attrs))
        self._fold_across_modules(parsed)
        from .memo import read_memos_cold

        self.memos, mlog = read_memos_cold([(rel, tree) for rel, _s, tree in parsed], self._known_attrs)
        self.fold_log.extend(mlog)
        for rel, src, tree in parsed:
            self.fold_log.extend(simplify_after_folding(tree, rel, self._known_locals))
            self.fold_log.extend(propagate_new_aliases(tree, rel, self._known_locals))
        # a helper that was reached only through a local alias (`step = Bus._helper` ... `await step(x)`) is called by name now: one more round of folding
        n0 = len(self.fold_log)
        for rel, src, tree in parsed:
            self.fold_log.extend(fold_new_helpers(tree, rel, self._known))
        self._fold_across_modules(parsed)
        if any(' folded into ' in ln for ln in self.fold_log[n0:]):
            for rel, src, tree in parsed:
                self.fold_log.extend(simplify_after_folding(tree, rel, self._known_locals))
                self.fold_log.extend(propagate_new_aliases(tree, rel, self._known_locals))
        for rel, src, tree in parsed:
            self.fold_log.extend(normalise_counting_loops(tree, rel))
            set_parents(tree)
            mi = ModuleInfo(rel, src, tree)
            self.modules[rel] = mi
            self._index_module(mi)
        # extra library files under bubus/ that are not in the fixed list are indexed too (cover what the build covers)
        pkg = os.path.join(self.root, 'bubus')
        for fn in sorted(os.listdir(pkg)):
            rel = f'bubus/{fn}'
            if fn.endswith('.py') and rel not in self.modules:
                src = open(os.path.join(pkg, fn), encoding='utf-8').read()
                h.update(rel.encode() + b'\0' + src.encode())
                tree = normalise_syntax(ast.parse(src))
                set_parents(tree)
                mi = ModuleInfo(rel, src, tree)
                self.modules[rel] = mi
                self._index_module(mi)
        self.digest = h.hexdigest()[:16]
        import re as _re
        from .facts import configure_status_synonyms

        self.fold_log.extend(configure_status_synonyms([mi.tree for mi in self.modules.values()]))

        for ln in self.fold_log:
            m = _re.match(r'(\S+?):(\S+) folded into its \d+ use\(s\)(?: in \S+)? \(\w[\w-]* form\) — (?:kept as a unit|the definition stays)', ln)
            if m:
                self.folded_kept.add((m.group(1), m.group(2)))

    def _index_module(self, mi: ModuleInfo) -> None:
        for st in mi.tree.body:
            self._index_stmt(mi, st, prefix='', cls=None, outer=None, toplevel=True)
        for st in ast.walk(mi.tree):
            if isinstance(st, ast.ImportFrom) and st.module:
                for a in st.names:
                    mi.imports[a.asname or a.name] = f'{st.module}.{a.name}'
            elif isinstance(st, ast.Import):
                for a in st.names:
                    mi.imports[a.asname or a.name.split('.')[0]] = a.name

    def _index_stmt(self, mi: ModuleInfo, st: ast.stmt, prefix: str, cls: str | None, outer: Unit | None, toplevel: bool) -> None:
        if isinstance(st, FuncNode):
            decos = _decorator_names(st)
            if any(d.endswith('overload') for d in decos):
                return
            qn = f'{prefix}{st.name}'
            u = Unit(mi.path, qn, st, cls, outer)
            self.units[u.key] = u
            if toplevel:
                mi.functions[st.name] = u
            if cls and prefix == f'{cls}.':
                ci = self.classes[cls]
                if any(d == 'property' or d.endswith('.setter') for d in decos):
                    if 'property' in decos:
                        ci.properties[st.name] = u
                else:
                    ci.methods[st.name] = u
            for inner in ast.walk(st):
                if inner is st:
                    continue
                if isinstance(inner, FuncNode) and self._nearest_def(inner) is st:
                    self._index_stmt(mi, inner, prefix=f'{qn}.', cls=cls, outer=u, toplevel=False)
        elif isinstance(st, ast.ClassDef):
            ci = ClassInfo(st.name, mi.path, st, [U(b) for b in st.bases])
            self.classes[st.name] = ci
            for b in st.body:
                if isinstance(b, ast.AnnAssign) and isinstance(b.target, ast.Name):
                    ci.attr_ann[b.target.id] = b.annotation
                    if b.value is not None:
                        ci.class_assigns[b.target.id] = b.value
                elif isinstance(b, ast.Assign):
                    for t in b.targets:
                        if isinstance(t, ast.Name):
                            ci.class_assigns[t.id] = b.value
                self._index_stmt(mi, b, prefix=f'{st.name}.', cls=st.name, outer=None, toplevel=False)
        elif toplevel:
            if isinstance(st, ast.AnnAssign) and isinstance(st.target, ast.Name):
                mi.globals_ann[st.target.id] = st.annotation
                if st.value is not None:
                    mi.globals_assign[st.target.id] = st.value
            elif isinstance(st, ast.Assign):
                for t in st.targets:
                    if isinstance(t, ast.Name):
                        mi.globals_assign[t.id] = st.value
            elif isinstance(st, (ast.If, ast.Try)):
                for sub in ast.iter_child_nodes(st):
                    if isinstance(sub, ast.stmt):
                        self._index_stmt(mi, sub, prefix, cls, outer, toplevel)

    @staticmethod
    def _nearest_def(node: ast.AST) -> ast.AST | None:
        for a in ancestors(node):
            if isinstance(a, FuncNode):
                return a
        return None

    # ------------------------------------------------------------------ lookup
    def unit(self, module: str, qualname: str) -> Unit:
        u = self.units.get((module, qualname))
        if u is None:
            raise AnchorError(f'anchor function vanished: {module}:{qualname}')
        return u

    def find_unit(self, qualname: str) -> Unit:
        hits = [u for u in self.units.values() if u.qualname == qualname]
        if len(hits) != 1:
            raise AnchorError(f'anchor function {qualname}: {len(hits)} definitions')
        return hits[0]

    def has_unit(self, module: str, qualname: str) -> bool:
        return (module, qualname) in self.units

    def cls(self, name: str) -> ClassInfo:
        c = self.classes.get(name)
        if c is None:
            raise AnchorError(f'anchor class vanished: {name}')
        return c

    def module(self, path: str) -> ModuleInfo:
        m = self.modules.get(path)
        if m is None:
            raise AnchorError(f'anchor module vanished: {path}')
        return m

    def lib_units(self) -> list[Unit]:
        return [u for u in self.units.values()]

    def unit_of(self, node: ast.AST) -> Unit | None:
        """The unit whose def node is the nearest enclosing def of *node*."""
        d = self._nearest_def(node) if not isinstance(node, FuncNode) else node
        if d is None:
            return None
        for u in self.units.values():
            if u.node is d:
                return u
        return None

    def nested(self, u: Unit) -> list[Unit]:
        cache = self.__dict__.setdefault('_nested_cache', {})
        if u.key not in cache:
            cache[u.key] = [v for v in self.units.values() if v.outer is not None and v.outer.key == u.key]
        return cache[u.key]

    def method(self, cls: str, name: str) -> Unit | None:
        """Method or property *name* on class *cls* or its repo bases."""
        seen: set[str] = set()
        todo = [cls]
        while todo:
            c = todo.pop(0)
            if c in seen or c not in self.classes:
                continue
            seen.add(c)
            ci = self.classes[c]
            if name in ci.methods:
                return ci.methods[name]
            if name in ci.properties:
                return ci.properties[name]
            for b in ci.bases:
                todo.append(b.split('[')[0].split('.')[-1])
        return None

    # ------------------------------------------------------------------ annotations -> Ty
    def ann_to_ty(self, ann: ast.expr | None) -> Ty | None:
        if ann is None:
            return None
        if isinstance(ann, ast.Constant) and isinstance(ann.value, str):
            try:
                return self.ann_to_ty(ast.parse(ann.value, mode='eval').body)
            except SyntaxError:
                return None
        if isinstance(ann, ast.BinOp) and isinstance(ann.op, ast.BitOr):
            # Optional / union: first resolvable non-None member
            for side in (ann.left, ann.right):
                if isinstance(side, ast.Constant) and side.value is None:
                    continue
                t = self.ann_to_ty(side)
                if t is not None:
                    return t
            return None
        if isinstance(ann, ast.Name):
            if ann.id in self.classes:
                return Ty('cls', ann.id)
            if ann.id in CONTAINER_NAMES:
                return Ty(CONTAINER_NAMES[ann.id], args=(None, None))
            return Ty('lib', ann.id)
        if isinstance(ann, ast.Attribute):
            if ann.attr in self.classes:
                return Ty('cls', ann.attr)
            if ann.attr in CONTAINER_NAMES:
                return Ty(CONTAINER_NAMES[ann.attr], args=(None, None))
            return Ty('lib', U(ann))
        if isinstance(ann, ast.Subscript):
            base = ann.value
            bname = base.id if isinstance(base, ast.Name) else base.attr if isinstance(base, ast.Attribute) else ''
            sl = ann.slice
            elts = list(sl.elts) if isinstance(sl, ast.Tuple) else [sl]
            if bname in self.classes:
                return Ty('cls', bname)
            if bname == 'Optional':
                return self.ann_to_ty(elts[0])
            if bname in CONTAINER_NAMES:
                kind = CONTAINER_NAMES[bname]
                args = tuple(self.ann_to_ty(e) for e in elts)
                if kind == 'dict' and len(args) == 2:
                    return Ty('dict', args=args)
                if kind in ('list', 'set'):
                    return Ty(kind, args=(args[0],))
                if kind == 'tuple':
                    return Ty('tuple', args=args)
                return Ty(kind, args=args)
            return Ty('lib', U(base))
        return None

    # ------------------------------------------------------------------ receiver typing
    def infer(self, expr: ast.expr, u: Unit, _depth: int = 0) -> Ty | None:
        """Best-effort static type of *expr* inside unit *u* from annotations; None when unknown."""
        if _depth > 8:
            return None
        key = (id(expr), u.key)
        cache = self.__dict__.setdefault('_infer_cache', {})
        if key in cache and cache[key][0] is expr:
            return cache[key][1]
        r = self._infer(expr, u, _depth)
        if _depth == 0:
            cache[key] = (expr, r)
        return r

    def _infer(self, expr: ast.expr, u: Unit, _depth: int = 0) -> Ty | None:
        if isinstance(expr, ast.Name):
            return self._infer_name(expr.id, u, expr, _depth)
        if isinstance(expr, ast.Attribute):
            if isinstance(expr.value, ast.Name) and expr.value.id in self.classes:
                ci = self.classes[expr.value.id]  # Class.attr
                if expr.attr in ci.attr_ann:
                    return self.ann_to_ty(ci.attr_ann[expr.attr])
            base = self.infer(expr.value, u, _depth + 1)
            if base is not None and base.kind == 'cls':
                return self._attr_ty(base.name, expr.attr)
            return None
        if isinstance(expr, ast.Subscript):
            base = self.infer(expr.value, u, _depth + 1)
            if base is None:
                return None
            if base.kind == 'dict' and len(base.args) == 2:
                return base.args[1]
            if base.kind == 'list' and base.args:
                return base.args[0]
            return None
        if isinstance(expr, ast.Await):
            return self.infer(expr.value, u, _depth + 1)
        if isinstance(expr, ast.Call):
            f = expr.func
            if isinstance(f, ast.Name):
                if f.id in self.classes:
                    return Ty('cls', f.id)
                if f.id in ('list', 'sorted', 'reversed', 'tuple', 'set') and expr.args:
                    inner = self.infer(expr.args[0], u, _depth + 1)
                    if inner is not None and inner.kind in ('list', 'set') and inner.args:
                        return Ty('list', args=(inner.args[0],))
                    if inner is not None and inner.kind == 'dict':
                        return Ty('list', args=(inner.args[0],))
                    return None
                if f.id == 'cast' and len(expr.args) == 2:
                    return self.ann_to_ty(expr.args[0])
                callee = self.resolve_name_callee(f.id, u)
                if callee is not None:
                    return self.ann_to_ty(callee.node.returns)
                return None
            if isinstance(f, ast.Subscript):  # CleanShutdownQueue['X'](...)
                t = self.ann_to_ty(f)
                if t is not None and t.kind == 'cls':
                    return t
            if isinstance(f, ast.Attribute):
                base = self.infer(f.value, u, _depth + 1)
                if base is not None and base.kind == 'dict' and len(base.args) == 2:
                    if f.attr == 'values':
                        return Ty('list', args=(base.args[1],))
                    if f.attr == 'keys':
                        return Ty('list', args=(base.args[0],))
                    if f.attr == 'items':
                        return Ty('list', args=(Ty('tuple', args=base.args),))
                    if f.attr in ('get', 'pop', 'setdefault'):
                        return base.args[1]
                if base is not None and base.kind == 'cls':
                    m = self.method(base.name, f.attr)
                    if m is not None:
                        return self.ann_to_ty(m.node.returns)
                if isinstance(f.value, ast.Name) and f.value.id in self.classes:
                    return None
            return None
        if isinstance(expr, ast.IfExp):
            return self.infer(expr.body, u, _depth + 1) or self.infer(expr.orelse, u, _depth + 1)
        if isinstance(expr, ast.BoolOp):
            for v in reversed(expr.values):
                t = self.infer(v, u, _depth + 1)
                if t is not None:
                    return t
        return None

    def _attr_ty(self, cls: str, attr: str) -> Ty | None:
        seen: set[str] = set()
        todo = [cls]
        while todo:
            c = todo.pop(0)
            if c in seen or c not in self.classes:
                continue
            seen.add(c)
            ci = self.classes[c]
            if attr in ci.attr_ann:
                return self.ann_to_ty(ci.attr_ann[attr])
            if attr in ci.properties:
                return self.ann_to_ty(ci.properties[attr].node.returns)
            # self.x: T = ... in __init__
            init = ci.methods.get('__init__')
            if init is not None:
                for n in own_nodes(init.node):
                    if isinstance(n, ast.AnnAssign) and isinstance(n.target, ast.Attribute) and n.target.attr == attr:
                        return self.ann_to_ty(n.annotation)
            todo.extend(b.split('[')[0].split('.')[-1] for b in ci.bases)
        return None

    def _scope_index(self, scope: Unit) -> dict:
        cache = self.__dict__.setdefault('_scope_idx', {})
        idx = cache.get(scope.key)
        if idx is None:
            idx = {'ann': {}, 'assign': {}, 'iters': [], 'imports': {}}
            for n in own_nodes(scope.node):
                if isinstance(n, ast.AnnAssign) and isinstance(n.target, ast.Name):
                    idx['ann'].setdefault(n.target.id, []).append(n.annotation)
                elif isinstance(n, ast.Assign):
                    for t in n.targets:
                        if isinstance(t, ast.Name):
                            idx['assign'].setdefault(t.id, []).append(n.value)
                elif isinstance(n, (ast.For, ast.AsyncFor, ast.comprehension)):
                    idx['iters'].append((n.target, n.iter, {x.id for x in ast.walk(n.target) if isinstance(x, ast.Name)}))
                elif isinstance(n, ast.ImportFrom) and n.module:
                    for a in n.names:
                        idx['imports'][a.asname or a.name] = f'{n.module}.{a.name}'
            cache[scope.key] = idx
        return idx

    def _infer_name(self, name: str, u: Unit, at: ast.AST, depth: int) -> Ty | None:
        scope: Unit | None = u
        while scope is not None:
            fn = scope.node
            a = fn.args
            allargs = a.posonlyargs + a.args + a.kwonlyargs
            if allargs and allargs[0].arg == name and name in ('self', 'cls') and scope.cls and scope.qualname == f'{scope.cls}.{fn.name}':
                return Ty('cls', scope.cls)
            for arg in allargs:
                if arg.arg == name and arg.annotation is not None:
                    return self.ann_to_ty(arg.annotation)
            idx = self._scope_index(scope)
            for ann in idx['ann'].get(name, []):
                t = self.ann_to_ty(ann)
                if t is not None:
                    return t
            for v in idx['assign'].get(name, []):
                t = self.infer(v, scope, depth + 1)
                if t is not None:
                    return t
            for target, it, names in idx['iters']:
                if name in names:
                    t = self._iter_target_ty(target, it, name, scope, depth)
                    if t is not None:
                        return t
            # self of a closure: walk outward
            scope = scope.outer
        mi = self.modules.get(u.module)
        if mi is not None:
            if name in mi.globals_ann:
                return self.ann_to_ty(mi.globals_ann[name])
        return None

    def _iter_target_ty(self, target: ast.expr, it: ast.expr, name: str, u: Unit, depth: int) -> Ty | None:
        ity = self.infer(it, u, depth + 1)
        if ity is None:
            return None
        elem: Ty | None = None
        if ity.kind in ('list', 'set') and ity.args:
            elem = ity.args[0]
        elif ity.kind == 'dict' and ity.args:
            elem = ity.args[0]
        if elem is None:
            return None
        if isinstance(target, ast.Name):
            return elem if target.id == name else None
        if isinstance(target, ast.Tuple) and elem.kind == 'tuple':
            for i, t in enumerate(target.elts):
                if isinstance(t, ast.Name) and t.id == name and i < len(elem.args):
                    return elem.args[i]
                if isinstance(t, ast.Tuple) and i < len(elem.args) and elem.args[i] is not None and elem.args[i].kind == 'tuple':  # type: ignore[union-attr]
                    for j, tt in enumerate(t.elts):
                        if isinstance(tt, ast.Name) and tt.id == name and j < len(elem.args[i].args):  # type: ignore[union-attr]
                            return elem.args[i].args[j]  # type: ignore[union-attr]
        return None

    # ------------------------------------------------------------------ callee resolution
    def resolve_name_callee(self, name: str, u: Unit) -> Unit | None:
        """A bare-name call: nested def in an enclosing unit, module function, or imported repo function."""
        scope: Unit | None = u
        while scope is not None:
            for v in self.nested(scope):
                if v.node.name == name:
                    return v
            scope = scope.outer
        mi = self.modules.get(u.module)
        if mi is None:
            return None
        if name in mi.functions:
            return mi.functions[name]
        tgt = mi.imports.get(name)
        if tgt is None:
            # function-level imports (from bubus.service import EventBus ...)
            sc: Unit | None = u
            while sc is not None and tgt is None:
                tgt = self._scope_index(sc)['imports'].get(name)
                sc = sc.outer
        if tgt and tgt.startswith('bubus.'):
            mod, _, attr = tgt.rpartition('.')
            path = mod.replace('.', '/') + '.py'
            m2 = self.modules.get(path)
            if m2 is not None and attr in m2.functions:
                return m2.functions[attr]
        return None

    def is_param(self, name: str, u: Unit) -> bool:
        scope: Unit | None = u
        while scope is not None:
            if name in scope.params():
                return True
            scope = scope.outer
        return False


def calls_in(fn: ast.AST, with_lambdas: bool = False) -> list[ast.Call]:
    it = own_nodes_with_lambdas(fn) if with_lambdas else own_nodes(fn)
    return sorted((n for n in it if isinstance(n, ast.Call)), key=lambda c: (c.lineno, c.col_offset))


def call_name(c: ast.Call) -> str:
    f = c.func
    if isinstance(f, ast.Name):
        return f.id
    if isinstance(f, ast.Attribute):
        return f.attr
    return ''


def contains_await(node: ast.AST) -> bool:
    """True if evaluating *node* (a statement header or simple statement) can suspend."""
    if isinstance(node, (ast.AsyncFor, ast.AsyncWith)):
        return True
    stack = [node]
    while stack:
        n = stack.pop()
        if isinstance(n, ast.Await):
            return True
        if isinstance(n, FuncNode + (ast.Lambda, ast.ClassDef)) and n is not node:
            continue
        if isinstance(n, ast.comprehension) and n.is_async:
            return True
        stack.extend(ast.iter_child_nodes(n))
    return False


def header_exprs(st: ast.stmt) -> list[ast.AST]:
    """The expressions evaluated by the statement *itself* (not by its nested blocks)."""
    if isinstance(st, (ast.If, ast.While)):
        return [st.test]
    if isinstance(st, (ast.For, ast.AsyncFor)):
        return [st.iter, st.target]
    if isinstance(st, (ast.With, ast.AsyncWith)):
        out: list[ast.AST] = []
        for it in st.items:
            out.append(it.context_expr)
            if it.optional_vars is not None:
                out.append(it.optional_vars)
        return out
    if isinstance(st, ast.Try):
        return []
    if isinstance(st, FuncNode + (ast.ClassDef,)):
        return list(getattr(st, 'decorator_list', []))
    return [st]


def dotted(e: ast.AST) -> str:
    return U(e)
