"""Resolved call graph, who-may-call / who-may-write queries, transitive attribute effects."""

from __future__ import annotations

import ast
from dataclasses import dataclass
from typing import Iterable

from .cfg import Analysis
from .loader import FuncNode, Program, U, Unit, call_name, calls_in, own_nodes, own_nodes_with_lambdas, parent, stmt_of

MUTATORS = {
    'append', 'extend', 'add', 'update', 'clear', 'remove', 'pop', 'discard', 'insert', 'setdefault', 'popleft',
    'appendleft', 'put_nowait', 'sort', 'reverse', 'popitem', 'set', 'reset', 'set_result', 'set_exception',
    'shutdown', 'rotate', '__setitem__', '__delitem__',
}  # fmt: skip


@dataclass
class Write:
    unit: Unit
    node: ast.AST  # the Assign / AugAssign / Delete / Call node
    target: str  # text of the object written, e.g. 'event.event_path' or 'holds_global_lock'
    attr: str  # last attribute (or bare name) -> the "field" written
    how: str  # 'assign' | 'augassign' | 'del' | 'subscript' | method name
    base: ast.AST | None = None  # receiver expression of the attribute (None for bare names)

    @property
    def line(self) -> int:
        return getattr(self.node, 'lineno', 0)

    def where(self) -> str:
        return f'{self.unit.module}:{self.line}'


def _attr_of(e: ast.AST) -> tuple[str, ast.AST | None] | None:
    if isinstance(e, ast.Attribute):
        return e.attr, e.value
    if isinstance(e, ast.Name):
        return e.id, None
    return None


class CallGraph:
    def __init__(self, an: Analysis):
        self.an = an
        self.prog: Program = an.prog
        self.edges: dict[tuple[str, str], list[tuple[ast.Call, Unit | str | None]]] = {}
        self.rev: dict[tuple[str, str], list[tuple[Unit, ast.Call]]] = {}
        self.writes: dict[tuple[str, str], list[Write]] = {}
        self.n_calls = 0
        self.n_resolved = 0
        self.n_opaque = 0
        self.n_library = 0
        for u in self.prog.units.values():
            lst: list[tuple[ast.Call, Unit | str | None]] = []
            for c in calls_in(u.node, with_lambdas=True):
                r = an.fm.resolve_call(c, u)
                lst.append((c, r))
                self.n_calls += 1
                if isinstance(r, Unit):
                    self.n_resolved += 1
                    self.rev.setdefault(r.key, []).append((u, c))
                elif r == 'opaque':
                    self.n_opaque += 1
                else:
                    self.n_library += 1
            # property reads on typed receivers count as calls of the property unit
            for n in own_nodes_with_lambdas(u.node):
                if isinstance(n, ast.Attribute) and isinstance(n.ctx, ast.Load):
                    t = self.prog.infer(n.value, u)
                    if t is not None and t.kind == 'cls':
                        ci = self.prog.classes.get(t.name)
                        m = self.prog.method(t.name, n.attr)
                        if m is not None and ci is not None and self._is_property(m):
                            fake = ast.Call(func=n, args=[], keywords=[])
                            ast.copy_location(fake, n)
                            fake._parent = parent(n)  # type: ignore[attr-defined]
                            fake._fake = True  # type: ignore[attr-defined]
                            lst.append((fake, m))
                            self.rev.setdefault(m.key, []).append((u, fake))
            self.edges[u.key] = lst
            self.writes[u.key] = self._direct_writes(u)
        self._twrites: dict[tuple[str, str], frozenset[str]] = {}
        self._compute_twrites()

    def _is_property(self, m: Unit) -> bool:
        return any(U(d) == 'property' for d in m.node.decorator_list)

    # ---------------------------------------------------------------- writes
    def _direct_writes(self, u: Unit) -> list[Write]:
        out: list[Write] = []
        for n in own_nodes_with_lambdas(u.node):
            if isinstance(n, (ast.Assign, ast.AnnAssign, ast.AugAssign)):
                if isinstance(n, ast.AnnAssign) and n.value is None:
                    continue
                targets = n.targets if isinstance(n, ast.Assign) else [n.target]
                flat: list[ast.AST] = []
                for t in targets:
                    flat.extend(t.elts if isinstance(t, (ast.Tuple, ast.List)) else [t])
                for t in flat:
                    how = 'augassign' if isinstance(n, ast.AugAssign) else 'assign'
                    if isinstance(t, ast.Attribute):
                        out.append(Write(u, n, U(t), t.attr, how, t.value))
                    elif isinstance(t, ast.Subscript):
                        a = _attr_of(t.value)
                        if a is not None:
                            out.append(Write(u, n, U(t.value), a[0], 'subscript', a[1]))
                        elif isinstance(t.value, ast.Subscript):
                            # x.attr[k][...] = v : the item of the container is overwritten in place (slice / element assignment)
                            a2 = _attr_of(t.value.value)
                            if a2 is not None:
                                out.append(Write(u, n, U(t.value), a2[0], 'setitem@item', a2[1]))
                    elif isinstance(t, ast.Name) and self._is_global_write(t.id, u):
                        out.append(Write(u, n, t.id, t.id, how, None))
            elif isinstance(n, ast.Delete):
                for t in n.targets:
                    if isinstance(t, ast.Subscript):
                        a = _attr_of(t.value)
                        if a is not None:
                            out.append(Write(u, n, U(t.value), a[0], 'del', a[1]))
                        elif isinstance(t.value, ast.Subscript):
                            a2 = _attr_of(t.value.value)
                            if a2 is not None:
                                out.append(Write(u, n, U(t.value), a2[0], 'del@item', a2[1]))
                    elif isinstance(t, ast.Attribute):
                        out.append(Write(u, n, U(t), t.attr, 'del', t.value))
            elif isinstance(n, ast.Call) and isinstance(n.func, ast.Attribute) and n.func.attr in MUTATORS:
                recv = n.func.value
                a = _attr_of(recv)
                if a is not None:
                    out.append(Write(u, n, U(recv), a[0], n.func.attr, a[1]))
                elif isinstance(recv, ast.Subscript):
                    a2 = _attr_of(recv.value)
                    if a2 is not None:
                        out.append(Write(u, n, U(recv), a2[0], n.func.attr + '@item', a2[1]))
        return out

    def _is_global_write(self, name: str, u: Unit) -> bool:
        for n in own_nodes(u.node):
            if isinstance(n, ast.Global) and name in n.names:
                return True
        return False

    def _fresh_local(self, w: 'Write') -> bool:
        """The write mutates a plain local of the writing unit that only ever holds containers built in that unit (`acc = []` ... `acc.append(x)`): not an effect anybody
        else can observe."""
        if w.base is not None:
            return False
        memo = self.__dict__.setdefault('_fresh_memo', {})
        key = (w.unit.key, w.attr)
        if key not in memo:
            fn = w.unit.node
            binds: list[ast.AST] = []
            ok = True
            params = {a.arg for a in fn.args.posonlyargs + fn.args.args + fn.args.kwonlyargs} | ({fn.args.vararg.arg} if fn.args.vararg else set()) | ({fn.args.kwarg.arg} if fn.args.kwarg else set())
            if w.attr in params:
                ok = False
            for n in own_nodes(fn):
                if isinstance(n, (ast.Global, ast.Nonlocal)) and w.attr in n.names:
                    ok = False
                elif isinstance(n, (ast.Assign, ast.AnnAssign)) and n.value is not None and any(isinstance(t, ast.Name) and t.id == w.attr for t in (n.targets if isinstance(n, ast.Assign) else [n.target])):
                    binds.append(n.value)
                elif isinstance(n, ast.Name) and n.id == w.attr and isinstance(n.ctx, ast.Store) and not isinstance(parent(n), (ast.Assign, ast.AnnAssign)):
                    ok = False  # bound by a loop / with / unpacking: may name anything
            fresh = lambda v: isinstance(v, (ast.List, ast.Dict, ast.Set, ast.ListComp, ast.DictComp, ast.SetComp)) or \
                (isinstance(v, ast.Call) and isinstance(v.func, ast.Name) and v.func.id in ('list', 'dict', 'set', 'defaultdict', 'deque') and all(isinstance(a, (ast.Name, ast.Constant)) for a in v.args))  # noqa: E731
            memo[key] = ok and bool(binds) and all(fresh(v) for v in binds)
        return memo[key]

    def _compute_twrites(self) -> None:
        cur: dict[tuple[str, str], set[str]] = {}
        for k, ws in self.writes.items():
            cur[k] = {w.attr for w in ws if not self._fresh_local(w)}
            if any(r == 'opaque' for _, r in self.edges[k]):
                cur[k].add('*')
        changed = True
        while changed:
            changed = False
            for k, lst in self.edges.items():
                for cl, r in lst:
                    if isinstance(r, Unit):
                        if r.is_async and not isinstance(parent(cl), ast.Await):
                            continue  # coroutine object created (task payload), not run here
                        add = cur.get(r.key, set()) - cur[k]
                        if add:
                            cur[k] |= add
                            changed = True
        self._twrites = {k: frozenset(v) for k, v in cur.items()}

    def twrites(self, u: Unit) -> frozenset[str]:
        return self._twrites.get(u.key, frozenset())

    def stmt_writes(self, st: ast.AST, u: Unit) -> set[str]:
        """Attribute names possibly written by executing statement *st* (direct + through resolved calls)."""
        out: set[str] = set()
        ids = {id(x) for x in ast.walk(st)}
        for w in self.writes.get(u.key, []):
            if id(w.node) in ids and not self._fresh_local(w):
                out.add(w.attr)
        for c, r in self.edges.get(u.key, []):
            if id(c) in ids or id(c.func) in ids:
                if isinstance(r, Unit):
                    if r.is_async and not isinstance(parent(c), ast.Await):
                        continue
                    out |= self.twrites(r)
                elif r == 'opaque':
                    out.add('*')
        return out

    # ---------------------------------------------------------------- who-may-call / who-may-write
    def callers(self, u: Unit) -> list[tuple[Unit, ast.Call]]:
        return list(self.rev.get(u.key, []))

    def callees(self, u: Unit) -> list[Unit]:
        seen: dict[tuple[str, str], Unit] = {}
        for _, r in self.edges.get(u.key, []):
            if isinstance(r, Unit):
                seen[r.key] = r
        return list(seen.values())

    def reach(self, roots: Iterable[Unit], include_nested: bool = True) -> dict[tuple[str, str], Unit]:
        seen: dict[tuple[str, str], Unit] = {}
        todo = list(roots)
        while todo:
            u = todo.pop()
            if u.key in seen:
                continue
            seen[u.key] = u
            todo.extend(self.callees(u))
            if include_nested:
                todo.extend(self.prog.nested(u))
        return seen

    def _is_local_name(self, u: Unit, name: str) -> bool:
        """*name* is a plain local variable (or parameter) of unit *u*: a mutation of the object it names is not a write of an attribute called *name*."""
        memo = self.__dict__.setdefault('_locals_memo', {})
        if u.key not in memo:
            loc: set[str] = set(u.params())
            glob: set[str] = set()
            for n in own_nodes(u.node):
                if isinstance(n, ast.Name) and isinstance(n.ctx, ast.Store):
                    loc.add(n.id)
                elif isinstance(n, (ast.Global, ast.Nonlocal)):
                    glob |= set(n.names)
            memo[u.key] = loc - glob
        return name in memo[u.key]

    def all_writes(self, attr: str | None = None, pred=None, include_locals: bool = False) -> list[Write]:
        out: list[Write] = []
        for ws in self.writes.values():
            for w in ws:
                if attr is not None and w.attr != attr:
                    continue
                if attr is not None and not include_locals and w.base is None and self._is_local_name(w.unit, w.attr):
                    continue  # `handlers.append(..)` on a local list called like the attribute
                if pred is not None and not pred(w):
                    continue
                out.append(w)
        return sorted(out, key=lambda w: (w.unit.module, w.line))

    def owners_closure(self, owners: set[tuple[str, str]]) -> set[tuple[str, str]]:
        """Transitive ownership: a helper (or closure) all of whose callers are owners is an owner too."""
        owners = set(owners)
        changed = True
        while changed:
            changed = False
            for u in self.prog.units.values():
                if u.key in owners:
                    continue
                if u.outer is not None and u.outer.key in owners:
                    owners.add(u.key)
                    changed = True
                    continue
                cs = self.callers(u)
                if cs and all(c.key in owners for c, _ in cs):
                    owners.add(u.key)
                    changed = True
        return owners

    def call_sites_of(self, target: Unit) -> list[tuple[Unit, ast.Call]]:
        return sorted(self.callers(target), key=lambda x: (x[0].module, x[1].lineno))

    def calls_named(self, name: str, units: Iterable[Unit] | None = None) -> list[tuple[Unit, ast.Call]]:
        out = []
        for u in units if units is not None else self.prog.units.values():
            for c, _ in self.edges.get(u.key, []):
                if call_name(c) == name and not getattr(c, '_fake', False):
                    out.append((u, c))
        return sorted(out, key=lambda x: (x[0].module, x[1].lineno))
