"""Independent cross-check of the CFG builder against CPython's own exception tables (thorough tier).

The library source is *compiled* (never executed).  For every statement that has an exceptional edge in our CFG we
compute, from the code object's exception table (`co_exceptiontable`, PEP 657-era zero-cost exceptions), the chain of
protecting constructs the interpreter would unwind through (first `except` clause line of a try, first statement of a
`finally` body, the `with` statement line), following cleanup-only blocks that end in RERAISE.  The destination our
CFG assigns to the exceptional edge must lie on that chain, and nothing catch-all (a `finally` body or a `with` exit)
may lie on the chain *before* it — i.e. our builder never routes an exception past a finally / with-exit that the
interpreter would run, and never into one the interpreter would not run.
"""

from __future__ import annotations

import ast
import dis
import os
from types import CodeType

from .cfg import CFG, Analysis
from .loader import FuncNode, Program, Unit, header_exprs, own_nodes, parent


def _code_objects(code: CodeType, out: dict[tuple[str, int], CodeType]) -> None:
    for k in code.co_consts:
        if isinstance(k, CodeType):
            out[(k.co_name, k.co_firstlineno)] = k
            _code_objects(k, out)


class ByteView:
    def __init__(self, code: CodeType):
        self.code = code
        self.ins = list(dis.get_instructions(code))
        self.by_off = {i.offset: n for n, i in enumerate(self.ins)}
        self.entries = list(dis._parse_exception_table(code))  # type: ignore[attr-defined]

    def lookup(self, off: int):
        for e in self.entries:
            if e.start <= off < e.end:
                return e
        return None

    def chain(self, off: int, limit: int = 12) -> list[int | None]:
        """Lines of the user-visible protectors unwound through from *off* (None terminates = leaves the function)."""
        out: list[int | None] = []
        seen = set()
        while limit > 0:
            limit -= 1
            e = self.lookup(off)
            if e is None or e.target in seen:
                out.append(None)
                return out
            seen.add(e.target)
            idx = self.by_off[e.target]
            line = None
            rer = None
            for i in self.ins[idx:]:
                if i.positions is not None and i.positions.lineno is not None and i.opname not in ('CLEANUP_THROW',):
                    line = i.positions.lineno
                    break
                if i.opname == 'RERAISE' or (i.opname == 'CALL_INTRINSIC_1' and 'STOPITERATION' in str(i.argrepr).upper()):
                    rer = i
                    break
                if i.opname in ('RETURN_VALUE', 'RETURN_CONST', 'JUMP_BACKWARD', 'JUMP_FORWARD', 'JUMP_BACKWARD_NO_INTERRUPT'):
                    break
            if line is not None:
                out.append(line)
                # continue unwinding from inside that handler only if it is a pure dispatch (except-clause chain): caller decides
                # find the re-raise point of this handler block to continue the chain: the first RERAISE after target
                nxt = None
                for i in self.ins[idx:]:
                    if i.opname == 'RERAISE':
                        nxt = i.offset
                        break
                if nxt is None:
                    return out
                off = nxt
                continue
            if rer is not None:
                if rer.opname != 'RERAISE':
                    out.append(None)
                    return out
                off = rer.offset
                continue
            out.append(None)
            return out
        return out


def protector_kinds(fn: ast.AST) -> dict[int, str]:
    """line -> kind of protecting construct that starts being 'visible' at that line."""
    kinds: dict[int, str] = {}
    for n in own_nodes(fn):
        if isinstance(n, ast.Try):
            if n.handlers:
                kinds.setdefault(n.handlers[0].lineno, 'except')
                for h in n.handlers[1:]:
                    kinds.setdefault(h.lineno, 'except')
            if n.finalbody:
                kinds[n.finalbody[0].lineno] = 'finally'
        elif isinstance(n, (ast.With, ast.AsyncWith)):
            kinds[n.lineno] = 'with'
    return kinds


def dst_line(g: CFG, dst) -> int | None:
    if dst.kind == 'raise_exit':
        return None
    if dst.kind == 'except':
        tr = parent(dst.ast)
        return tr.handlers[0].lineno  # type: ignore[union-attr]
    if dst.kind == 'withexit':
        return dst.ast.lineno
    return dst.line  # first statement of a finally copy


def cross_check(prog: Program, an: Analysis) -> dict:
    res = {'functions': 0, 'statements_checked': 0, 'edges_checked': 0, 'mismatches': [], 'skipped': []}
    for mod, mi in prog.modules.items():
        if mod in ('bubus/logging.py', 'bubus/__init__.py'):
            continue
        if any(l.startswith(mod + ':') and 'folded' in l for l in getattr(prog, 'fold_log', [])):
            res['skipped'].append(f'{mod}: helpers were folded into callers, line-based comparison with the compiled source skipped')
            continue
        try:
            top = compile(mi.source, os.path.join(prog.root, mod), 'exec', dont_inherit=True)
        except SyntaxError as e:  # pragma: no cover
            res['skipped'].append(f'{mod}: {e}')
            continue
        codes: dict[tuple[str, int], CodeType] = {}
        _code_objects(top, codes)
        for u in [x for x in prog.units.values() if x.module == mod]:
            first = min([u.node.lineno] + [d.lineno for d in u.node.decorator_list])
            code = codes.get((u.node.name, first)) or codes.get((u.node.name, u.node.lineno))
            if code is None:
                res['skipped'].append(f'{u}: code object not found')
                continue
            g = an.cfg(u)
            bv = ByteView(code)
            kinds = protector_kinds(u.node)
            res['functions'] += 1
            line_offs: dict[int, list[int]] = {}
            for i in bv.ins:
                if i.positions is not None and i.positions.lineno is not None:
                    line_offs.setdefault(i.positions.lineno, []).append(i.offset)
            for n in g.live_nodes():
                exc_edges = [e for e in n.succ if e.is_exc]
                if not exc_edges or n.ast is None or n.kind in ('reraise', 'except', 'withexit'):
                    continue
                hdr = header_exprs(n.ast) if isinstance(n.ast, ast.stmt) else []
                lines = sorted({x.lineno for h in hdr for x in ast.walk(h) if hasattr(x, 'lineno')} | {n.ast.lineno})
                offs = [o for ln in lines for o in line_offs.get(ln, [])]
                if not offs:
                    continue
                chains = {tuple(bv.chain(o)) for o in offs}
                res['statements_checked'] += 1
                for e in exc_edges:
                    want = dst_line(g, e.dst)
                    res['edges_checked'] += 1
                    ok = False
                    for ch in chains:
                        if want in ch:
                            before = ch[: ch.index(want)]
                            if all(kinds.get(b) == 'except' for b in before):
                                ok = True
                                break
                    if not ok:
                        res['mismatches'].append(
                            f'{u.module}:{n.line} {u.qualname}: `{n.text(60)}` raises {e.exc} -> CFG routes to line {want}, '
                            f'interpreter unwinds through {sorted(chains, key=str)}'
                        )
    return res


SABOTAGES = [
    ('try-finally skipped on exceptions', "exc=lambda t: [fin(('exc', t), lambda: reraise(t), t)],", 'exc=lambda t: k.exc(t),'),
    ('with-exit skipped on exceptions', "exc=lambda t: [ex(('exc', t), lambda: reraise(t))],", 'exc=lambda t: k.exc(t),'),
    ('handler bodies protected by their own try', "n.add('next', self._block(h.body, ki.with_(cur_exc=t)))", "n.add('next', self._block(h.body, kb.with_(cur_exc=t)))"),
]


def sabotage_selfcheck(prog: Program) -> list[dict]:
    """Positive examples for the cross-check itself: three deliberately wrong CFG builders must each produce mismatches."""
    import sys
    import types

    src = open(os.path.join(os.path.dirname(os.path.abspath(__file__)), 'cfg.py'), encoding='utf-8').read()
    out = []
    for n, (name, old, new) in enumerate(SABOTAGES):
        bad = src.replace(old, new, 1)
        if bad == src:
            out.append({'sabotage': name, 'status': 'skipped (builder text changed)'})
            continue
        modname = f'sa._cfg_sabotaged_{n}'
        m = types.ModuleType(modname)
        m.__package__ = 'sa'
        sys.modules[modname] = m
        try:
            exec(compile(bad, 'cfg.py', 'exec'), m.__dict__)
            r = cross_check(prog, m.Analysis(prog))
            out.append({'sabotage': name, 'mismatches': len(r['mismatches']), 'status': 'detected' if r['mismatches'] else 'NOT DETECTED'})
        finally:
            sys.modules.pop(modname, None)
    return out
