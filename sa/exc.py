"""Exception types, class hierarchy, and the fault models (what "may raise" means).

FM-cancel   every statement that contains an ``await`` may raise asyncio.CancelledError
FM-explicit ``raise T(...)`` / ``raise var`` (var resolved through its constructor assignment) / bare ``raise``;
            a call to a *resolved repo function* raises that function's escape set (fixed point over call graph)
FM-lib      frozen table for the few library calls whose exceptions matter
FM-handler  an opaque callback (a parameter such as ``handler`` / ``func`` / ``include``) may raise any Exception

``assert`` is treated as non-raising in every model.  Any other library call is assumed not to raise.
"""

from __future__ import annotations

import ast
import asyncio
import builtins
from dataclasses import dataclass
from typing import Callable

from .loader import FuncNode, Program, U, Unit, ancestors, call_name, contains_await, header_exprs, own_nodes, own_nodes_with_lambdas, parent


@dataclass(frozen=True, order=True)
class ExcT:
    name: str
    exact: bool = True  # exact class vs "this class or any subclass"

    def __str__(self) -> str:
        return self.name if self.exact else f'{self.name}+'


CANCEL = ExcT('CancelledError', True)
ANY_EXCEPTION = ExcT('Exception', False)
TIMEOUT = ExcT('TimeoutError', True)

# --------------------------------------------------------------------------------------------
# class hierarchy: real classes for stdlib names, AST bases for repo-defined ones
# --------------------------------------------------------------------------------------------

_STD: dict[str, type] = {}
for _n in dir(builtins):
    _o = getattr(builtins, _n)
    if isinstance(_o, type) and issubclass(_o, BaseException):
        _STD[_n] = _o
for _n in ('CancelledError', 'TimeoutError', 'QueueFull', 'QueueEmpty', 'InvalidStateError', 'IncompleteReadError'):
    _o = getattr(asyncio, _n, None)
    if isinstance(_o, type):
        _STD.setdefault(_n, _o)
        _STD[f'asyncio.{_n}'] = _o
if hasattr(asyncio, 'QueueShutDown'):
    _STD['asyncio.QueueShutDown'] = asyncio.QueueShutDown  # type: ignore[attr-defined]


class Hierarchy:
    def __init__(self, prog: Program):
        self.repo: dict[str, list[str]] = {}
        for ci in prog.classes.values():
            bases = [b.split('.')[-1] for b in ci.bases]
            if any(b in _STD or b in self.repo for b in bases) or any(b.endswith('Error') or b.endswith('Exception') for b in bases):
                self.repo[ci.name] = bases

    def canon(self, name: str) -> str:
        if name in self.repo:
            return name
        if name in _STD:
            return _STD[name].__name__ if not name.startswith('asyncio.') else _STD[name].__name__
        short = name.split('.')[-1]
        if short in self.repo:
            return short
        if short in _STD:
            return _STD[short].__name__
        return short

    def ancestors(self, name: str) -> list[str]:
        name = self.canon(name)
        if name in self.repo:
            out = [name]
            for b in self.repo[name]:
                out.extend(self.ancestors(b))
            return out
        if name in _STD:
            return [c.__name__ for c in _STD[name].__mro__ if c is not object]
        return [name, 'Exception', 'BaseException']  # unknown -> ordinary Exception subclass

    def is_sub(self, a: str, b: str) -> bool:
        return self.canon(b) in self.ancestors(a)

    def match(self, t: ExcT, handler_types: list[str] | None) -> str:
        """'yes' (definitely caught), 'maybe' (caught for some subclasses), 'no'."""
        if handler_types is None:  # bare except
            return 'yes'
        res = 'no'
        for h in handler_types:
            if self.is_sub(t.name, h):
                return 'yes'
            if not t.exact and self.is_sub(h, t.name):
                res = 'maybe'
        return res

    def narrowed(self, t: ExcT, handler_types: list[str] | None) -> list[ExcT]:
        """The exception type(s) bound inside a handler entered with incoming type *t*."""
        if handler_types is None:
            return [t]
        out: list[ExcT] = []
        for h in handler_types:
            if self.is_sub(t.name, h):
                return [t]
            if not t.exact and self.is_sub(h, t.name):
                out.append(ExcT(self.canon(h), False))
        return out or [t]


def decide_nonnull(test: ast.AST, nonnull: frozenset[str]) -> bool | None:
    """Truth of `p is None` / `p is not None` (possibly negated) when parameter p is known not to be None."""
    if isinstance(test, ast.UnaryOp) and isinstance(test.op, ast.Not):
        d = decide_nonnull(test.operand, nonnull)
        return None if d is None else (not d)
    if isinstance(test, ast.Compare) and len(test.ops) == 1 and isinstance(test.left, ast.Name) and test.left.id in nonnull:
        rhs = test.comparators[0]
        if isinstance(rhs, ast.Constant) and rhs.value is None:
            if isinstance(test.ops[0], ast.Is):
                return False
            if isinstance(test.ops[0], ast.IsNot):
                return True
    return None


def handler_type_names(h: ast.ExceptHandler) -> list[str] | None:
    if h.type is None:
        return None
    if isinstance(h.type, ast.Tuple):
        return [U(e) for e in h.type.elts]
    return [U(h.type)]


# --------------------------------------------------------------------------------------------
# FM-lib
# --------------------------------------------------------------------------------------------

FM_LIB: dict[str, list[ExcT]] = {
    # name of called attribute/function -> exceptions (when the receiver is not a repo class)
    'put_nowait': [ExcT('QueueFull')],
    'get_nowait': [ExcT('QueueEmpty')],
    'wait_for': [TIMEOUT],
    'get_running_loop': [ExcT('RuntimeError')],
    'model_validate': [ANY_EXCEPTION],
    'validate_python': [ANY_EXCEPTION],
    'TypeAdapter': [ANY_EXCEPTION],
    'open_file': [ExcT('OSError', False)],
    'write': [ExcT('OSError', False)],
    'mkdir': [ExcT('OSError', False)],
    'model_dump_json': [ANY_EXCEPTION],
    'issubclass': [ExcT('TypeError')],
    'UUID': [ExcT('ValueError')],
}
FM_LIB_DOC = [
    'put_nowait -> QueueFull', 'get_nowait -> QueueEmpty', 'asyncio.wait_for -> TimeoutError (+ what the awaited task raises)',
    'asyncio.get_running_loop -> RuntimeError', 'pydantic model_validate / TypeAdapter / validate_python / model_dump_json -> Exception',
    'anyio.open_file / write / mkdir -> OSError', 'issubclass(x, ..) -> TypeError unless evaluated under isinstance(x, type)', 'every await -> CancelledError',
    'await inside `async with asyncio.timeout(..)` -> TimeoutError',
    'sort / sorted / min / max keyed by a caller-supplied datetime field itself (naive and aware values do not compare) -> TypeError', 'all other library calls: assumed not to raise',
    'assert statements: assumed to hold',
]  # fmt: skip


class FaultModel:
    """Computes, per statement (header) of a unit, the set of exception types it may raise."""

    def __init__(self, prog: Program):
        self.prog = prog
        self.h = Hierarchy(prog)
        self.escape: dict[tuple[str, str], frozenset[ExcT]] = {}  # filled by cfg.Analysis fixpoint
        self.unresolved: list[str] = []
        self.resolved_calls = 0
        self.opaque_calls: list[str] = []
        self._rc_cache: dict = {}
        self._spec_memo: dict = {}
        self._nonterm: dict = {}
        self.cfg_factory = None  # set by cfg.Analysis
        self._nn: frozenset[str] = frozenset()

    # -- callee resolution ------------------------------------------------------------------
    def resolve_call(self, c: ast.Call, u: Unit) -> Unit | None | str:
        """Unit for a resolved repo callee; 'opaque' for a callback value; None for library/unknown."""
        key = (id(c), u.key)
        hit = self._rc_cache.get(key)
        if hit is not None and hit[0] is c:
            return hit[1]
        r = self._resolve_call(c, u)
        self._rc_cache[key] = (c, r)
        return r

    def _resolve_call(self, c: ast.Call, u: Unit) -> Unit | None | str:
        f = c.func
        P = self.prog
        if isinstance(f, ast.Name):
            callee = P.resolve_name_callee(f.id, u)
            if callee is not None:
                return callee
            if f.id in P.classes:
                init = P.method(f.id, '__init__')
                return init
            if P.is_param(f.id, u) or self._is_local_callback(f.id, u):
                return 'opaque'
            return None
        if isinstance(f, ast.Attribute):
            recv = f.value
            if isinstance(recv, ast.Call) and isinstance(recv.func, ast.Name) and recv.func.id == 'super':
                return None  # library base class: FM-lib by name
            t = P.infer(recv, u)
            if t is not None and t.kind == 'cls':
                m = P.method(t.name, f.attr)
                if m is not None:
                    return m
                return None
            if isinstance(recv, ast.Name) and recv.id in P.classes:
                m = P.method(recv.id, f.attr)
                if m is not None:
                    return m
            if t is None:
                # fall back: method name unique among repo classes and not a common library method name
                owners = [ci for ci in P.classes.values() if f.attr in ci.methods]
                if len(owners) == 1 and f.attr not in COMMON_LIB_METHODS:
                    return owners[0].methods[f.attr]
            return None
        return None

    def _is_local_callback(self, name: str, u: Unit) -> bool:
        """A bare-name call of a *local variable* (for target, assignment, lambda argument): calling a value."""
        if hasattr(builtins, name):
            return False
        scope: Unit | None = u
        while scope is not None:
            for n in own_nodes_with_lambdas(scope.node):
                if isinstance(n, ast.Name) and n.id == name and isinstance(n.ctx, ast.Store):
                    return True
                if isinstance(n, ast.Lambda):
                    a = n.args
                    if any(x.arg == name for x in a.posonlyargs + a.args + a.kwonlyargs):
                        return True
            scope = scope.outer
        return False

    # -- per statement ----------------------------------------------------------------------
    def raises(self, st: ast.stmt, u: Unit, nonnull: frozenset[str] = frozenset()) -> set[ExcT]:
        self._nn = nonnull
        out: set[ExcT] = set()
        if isinstance(st, ast.Assert):
            return out
        if isinstance(st, FuncNode + (ast.ClassDef,)):
            return out
        hdr = header_exprs(st)
        if isinstance(st, ast.Raise):
            out |= self.raise_types(st, u)
            hdr = [st.exc] if st.exc is not None else []
            # evaluating the constructor expression: nested calls ignored (f-strings / str())
            return out
        suspends = any(self._may_suspend(h, u) for h in hdr) or isinstance(st, (ast.AsyncFor, ast.AsyncWith))
        if suspends:
            out.add(CANCEL)
            if self._inside_asyncio_timeout(st):
                out.add(TIMEOUT)
        if isinstance(st, (ast.With, ast.AsyncWith)):
            for it in st.items:
                t = self.prog.infer(it.context_expr, u)
                if t is not None and t.kind == 'cls':
                    m = self.prog.method(t.name, '__aenter__' if isinstance(st, ast.AsyncWith) else '__enter__')
                    if m is not None:
                        out |= set(self.escape.get(m.key, frozenset()))
        for h in hdr:
            for n in self._walk_expr(h):
                if isinstance(n, ast.Call):
                    out |= self.call_raises(n, u)
                elif isinstance(n, ast.Await):
                    out |= self.await_raises(n, u)
        return out

    def _may_suspend(self, root: ast.AST, u: Unit) -> bool:
        """An await in *root* that can actually suspend: `await <resolved repo coroutine>(...)` suspends only if that
        coroutine may (its escape set contains CancelledError); any other awaitable may."""
        if not contains_await(root):
            return False
        for n in self._walk_expr(root):
            if isinstance(n, ast.Await):
                v = n.value
                if isinstance(v, ast.Call):
                    r = self.resolve_call(v, u)
                    if isinstance(r, Unit) and r.is_async:
                        if CANCEL in self.escape.get(r.key, frozenset()):
                            return True
                        continue
                return True
            if isinstance(n, ast.comprehension) and n.is_async:
                return True
        return False

    def _walk_expr(self, root: ast.AST):
        stack = [root]
        nn = getattr(self, '_nn', frozenset())
        while stack:
            n = stack.pop()
            yield n
            if isinstance(n, FuncNode + (ast.Lambda, ast.ClassDef)):
                continue
            if nn and isinstance(n, ast.IfExp):
                d = decide_nonnull(n.test, nn)
                if d is not None:
                    stack.append(n.test)
                    stack.append(n.body if d else n.orelse)
                    continue
            stack.extend(ast.iter_child_nodes(n))

    # -- call-site specialisation on "this argument is definitely not None" ----------------------
    def nonnull_args(self, c: ast.Call, callee: Unit, u: Unit) -> frozenset[str]:
        params = callee.params()
        if params and params[0] in ('self', 'cls') and isinstance(c.func, ast.Attribute):
            params = params[1:]
        out: set[str] = set()
        pairs: list[tuple[str, ast.AST]] = []
        for i, a in enumerate(c.args):
            if i < len(params) and not isinstance(a, ast.Starred):
                pairs.append((params[i], a))
        for k in c.keywords:
            if k.arg is not None:
                pairs.append((k.arg, k.value))
        for name, a in pairs:
            if self._definitely_not_none(a, u):
                out.add(name)
        return frozenset(out)

    def _definitely_not_none(self, a: ast.AST, u: Unit) -> bool:
        if isinstance(a, ast.Constant):
            return a.value is not None
        if isinstance(a, (ast.Dict, ast.List, ast.Tuple, ast.Set, ast.JoinedStr, ast.DictComp, ast.ListComp, ast.SetComp, ast.Lambda)):
            return True
        if isinstance(a, ast.Name):
            binds = [n for n in own_nodes(u.node) if isinstance(n, (ast.Assign, ast.AnnAssign)) and any(
                isinstance(t, ast.Name) and t.id == a.id for t in (n.targets if isinstance(n, ast.Assign) else [n.target]))]
            if len(binds) != 1 or a.id in u.params():
                return False
            v = binds[0].value
            if isinstance(v, (ast.Dict, ast.List, ast.DictComp, ast.ListComp)):
                return True
            if isinstance(v, ast.Call):
                r = self.resolve_call(v, u)
                if isinstance(r, Unit) and r.node.returns is not None:
                    txt = U(r.node.returns)
                    return 'None' not in txt and 'Optional' not in txt and 'Any' not in txt
            return False
        return False

    def escape_at_call(self, c: ast.Call, callee: Unit, u: Unit) -> frozenset[ExcT]:
        nn = self.nonnull_args(c, callee, u)
        if nn:
            nn = frozenset(p for p in nn if self._tests_none(callee, p))
        if not nn or self.cfg_factory is None:
            return self.escape.get(callee.key, frozenset())
        key = (callee.key, nn)
        if key not in self._spec_memo:
            self._spec_memo[key] = self.escape.get(callee.key, frozenset())  # recursion guard
            saved = getattr(self, '_nn', frozenset())
            g = self.cfg_factory(callee, nn)
            self._nn = saved
            self._spec_memo[key] = g.escape_set()
        return self._spec_memo[key]

    def _tests_none(self, callee: Unit, p: str) -> bool:
        for n in own_nodes(callee.node):
            if isinstance(n, ast.Compare) and isinstance(n.left, ast.Name) and n.left.id == p and len(n.ops) == 1 and isinstance(n.ops[0], (ast.Is, ast.IsNot)):
                return True
        return False

    def _inside_asyncio_timeout(self, st: ast.AST) -> bool:
        for a in ancestors(st):
            if isinstance(a, FuncNode):
                return False
            if isinstance(a, ast.AsyncWith):
                for it in a.items:
                    if isinstance(it.context_expr, ast.Call) and U(it.context_expr.func) in ('asyncio.timeout', 'timeout', 'asyncio.timeout_at'):
                        return True
        return False

    def call_raises(self, c: ast.Call, u: Unit) -> set[ExcT]:
        r = self.resolve_call(c, u)
        name = call_name(c)
        if isinstance(r, Unit):
            self.resolved_calls += 1
            if r.is_async and not isinstance(parent(c), ast.Await):
                # coroutine object created, not awaited here (create_task(coro()) / gather) -> raises nothing here
                return set()
            out = set(self.escape_at_call(c, r, u))
            if r.key == u.key and self.nonterminating_recursion(u):
                out.add(ExcT('RecursionError'))
            return out
        if r == 'opaque':
            self.opaque_calls.append(f'{u.loc(c)} {U(c.func)}(...)')
            return {ANY_EXCEPTION}
        if name in FM_LIB:
            if name == 'write' and not isinstance(parent(c), ast.Await):
                return set()
            if name == 'issubclass' and c.args and self._known_class(c, U(c.args[0])):
                return set()
            return set(FM_LIB[name])
        if name in ('sort', 'sorted', 'min', 'max') and self._orders_by_raw_datetime(c):
            return {ExcT('TypeError')}
        return set()

    @staticmethod
    def _known_class(c: ast.Call, x: str) -> bool:
        """issubclass(x, ..) evaluated only after `isinstance(x, type)` held: as a later operand of the same `and`, or inside the body of an `if` (or the true arm of a
        conditional expression) whose test has it as a conjunct."""
        def is_type_test(e: ast.AST) -> bool:
            return isinstance(e, ast.Call) and isinstance(e.func, ast.Name) and e.func.id == 'isinstance' and len(e.args) == 2 and U(e.args[0]) == x and U(e.args[1]) == 'type'

        def conjuncts(t: ast.AST) -> list[ast.AST]:
            return [y for v in t.values for y in conjuncts(v)] if isinstance(t, ast.BoolOp) and isinstance(t.op, ast.And) else [t]

        node: ast.AST = c
        p = parent(node)
        while p is not None and not isinstance(p, (ast.FunctionDef, ast.AsyncFunctionDef, ast.Lambda, ast.ClassDef, ast.Module)):
            if isinstance(p, ast.BoolOp) and isinstance(p.op, ast.And):
                idx = next((i for i, v in enumerate(p.values) if v is node), None)
                if idx is not None and any(is_type_test(y) for v in p.values[:idx] for y in conjuncts(v)):
                    return True
            if isinstance(p, (ast.If, ast.IfExp)) and node is not p.test and any(is_type_test(y) for y in conjuncts(p.test)):
                in_true = any(node is b for b in p.body) if isinstance(p, ast.If) else node is p.body
                if in_true and not (isinstance(p, ast.If) and any(isinstance(n_, ast.Name) and isinstance(n_.ctx, ast.Store) and n_.id == x for b in p.body for n_ in ast.walk(b))):
                    return True
            node, p = p, parent(p)
        return False

    def _caller_supplied_datetime_fields(self) -> set[str]:
        """Model fields of the event class annotated plain `datetime`: a caller may construct an event with a timezone-naive or a timezone-aware value."""
        hit = self._spec_memo.get('__dt_fields')
        if hit is None:
            hit = set()
            ci = self.prog.classes.get('BaseEvent')
            if ci is not None:
                for st in ci.node.body:
                    if isinstance(st, ast.AnnAssign) and isinstance(st.target, ast.Name) and U(st.annotation) == 'datetime':
                        hit.add(st.target.id)
            self._spec_memo['__dt_fields'] = hit
        return hit

    def _orders_by_raw_datetime(self, c: ast.Call) -> bool:
        """sort / sorted / min / max whose key is (or contains, as a tuple element) such a field itself, not a number derived from it: comparing a naive with an aware value raises TypeError."""
        fields = self._caller_supplied_datetime_fields()
        key = next((k.value for k in c.keywords if k.arg == 'key'), None)
        if not fields or not isinstance(key, ast.Lambda):
            return False
        elems = key.body.elts if isinstance(key.body, ast.Tuple) else [key.body]
        return any(isinstance(e, ast.Attribute) and e.attr in fields for e in elems)

    def await_raises(self, a: ast.Await, u: Unit) -> set[ExcT]:
        """Exceptions re-raised from the awaited object (a task wrapping an opaque callback, wait_for(task), ...)."""
        out: set[ExcT] = set()
        v = a.value
        # await wait_for(X, ...) / await X where X is a local bound to create_task(<call>)
        targets: list[ast.expr] = []
        if isinstance(v, ast.Call) and call_name(v) in ('wait_for', 'shield') and v.args:
            targets.append(v.args[0])
        elif isinstance(v, ast.Name):
            targets.append(v)
        if not targets or isinstance(v, ast.Name):
            # awaiting an object of a repo class that defines __await__ (EventResult, BaseEvent): the coroutine it builds
            ty = self.prog.infer(v, u) if isinstance(v, (ast.Name, ast.Attribute, ast.Subscript)) else None
            if ty is not None and ty.kind == 'cls':
                m = self.prog.method(ty.name, '__await__')
                if m is not None:
                    for inner_u in self.prog.nested(m):
                        if inner_u.is_async:
                            out |= set(self.escape.get(inner_u.key, frozenset()))
        for t in targets:
            if isinstance(t, ast.Name):
                for inner in self._task_payloads(t.id, u):
                    out |= self.call_raises_as_awaited(inner, u)
            elif isinstance(t, ast.Call):
                out |= self.call_raises_as_awaited(t, u)
        return out

    def call_raises_as_awaited(self, c: ast.Call, u: Unit) -> set[ExcT]:
        r = self.resolve_call(c, u)
        if isinstance(r, Unit):
            return set(self.escape_at_call(c, r, u))
        if r == 'opaque':
            return {ANY_EXCEPTION}
        return set()

    def _task_payloads(self, name: str, u: Unit) -> list[ast.Call]:
        """calls wrapped by create_task(...) and bound to local *name* (also via tuple/dict entries is not tracked)."""
        out: list[ast.Call] = []
        for n in own_nodes(u.node):
            if isinstance(n, ast.Assign) and any(isinstance(t, ast.Name) and t.id == name for t in n.targets):
                v = n.value
                if isinstance(v, ast.Call) and call_name(v) in ('create_task', 'ensure_future') and v.args and isinstance(v.args[0], ast.Call):
                    out.append(v.args[0])
        return out

    def nonterminating_recursion(self, u: Unit) -> bool:
        """A function that calls itself but never reads any of its parameters cannot make progress: whenever the
        recursive call is reached once it is reached forever (RecursionError).  Contradiction-style rule (a parameter
        that the recursion is supposed to descend on is ignored)."""
        cached = self._nonterm.get(u.key)
        if cached is not None:
            return cached
        res = False
        params = [p for p in u.params() if p not in ('self', 'cls')]
        self_calls = [c for c in own_nodes_with_lambdas(u.node) if isinstance(c, ast.Call) and isinstance(c.func, ast.Name) and c.func.id == u.node.name]
        if params and self_calls:
            reads = {n.id for n in own_nodes_with_lambdas(u.node) if isinstance(n, ast.Name) and isinstance(n.ctx, ast.Load)}
            res = not any(p in reads for p in params)
        self._nonterm[u.key] = res
        return res

    def raise_types(self, st: ast.Raise, u: Unit) -> set[ExcT]:
        if (u.module, u.qualname) in SUPPRESSED_RAISE_UNITS:
            return set()
        if st.exc is None:
            return {ExcT('<reraise>')}
        e = st.exc
        if isinstance(e, ast.Call):
            return {ExcT(self.h.canon(U(e.func)))}
        if isinstance(e, ast.Name):
            # handler-bound name -> re-raise of the caught type
            for a in ancestors(st):
                if isinstance(a, ast.ExceptHandler) and a.name == e.id:
                    return {ExcT('<reraise>')}
                if isinstance(a, FuncNode):
                    break
            # local bound to a constructor call in the same unit (followed through plain copies: `err = built`, `built = TimeoutError(..)`, `built = e`)
            handler_names = {a.name for a in ancestors(st) if isinstance(a, ast.ExceptHandler) and a.name}

            def types_of(name: str, depth: int, seen: frozenset) -> set[ExcT]:
                out_t: set[ExcT] = set()
                for n in own_nodes(u.node):
                    tgt = None
                    if isinstance(n, ast.Assign) and any(isinstance(t, ast.Name) and t.id == name for t in n.targets):
                        tgt = n.value
                    elif isinstance(n, ast.AnnAssign) and isinstance(n.target, ast.Name) and n.target.id == name and n.value is not None:
                        tgt = n.value
                    if tgt is None:
                        continue
                    v = tgt
                    if isinstance(v, ast.Call) and isinstance(v.func, (ast.Name, ast.Attribute)):
                        out_t.add(ExcT(self.h.canon(U(v.func))))
                    elif isinstance(v, ast.Constant) and v.value is None:
                        continue  # a default the raise is never reached with
                    elif isinstance(v, ast.Name) and v.id in handler_names:
                        out_t.add(ExcT('<reraise>'))  # the exception object caught by the enclosing arm, handed on through a local
                    elif isinstance(v, ast.Name) and depth < 4 and v.id not in seen:
                        out_t |= types_of(v.id, depth + 1, seen | {name}) or {ExcT('BaseException', False)}
                    else:
                        out_t.add(ExcT('BaseException', False))
                return out_t

            types = types_of(e.id, 0, frozenset())
            if types:
                return types
            if e.id in self.prog.classes or e.id in _STD:
                return {ExcT(self.h.canon(e.id))}
            return {ExcT('BaseException', False)}
        if isinstance(e, ast.Attribute):
            nm = U(e)
            if nm in _STD or nm.split('.')[-1] in _STD:
                return {ExcT(self.h.canon(nm))}
            return {ExcT('BaseException', False)}
        if isinstance(e, ast.IfExp):
            out: set[ExcT] = set()
            for br in (e.body, e.orelse):
                fake = ast.Raise(exc=br, cause=None)
                fake._parent = parent(st)  # type: ignore[attr-defined]
                out |= self.raise_types(fake, u)
            return out
        return {ExcT('BaseException', False)}


# one named suppression, with its reason (also listed in evidence assumptions)
SUPPRESSED_RAISE_UNITS = {
    ('bubus/models.py', 'get_handler_name'): 'its `raise ValueError` arm needs a non-callable handler; EventBus.on() asserts handlers are functions/methods',
}

COMMON_LIB_METHODS = {
    'get', 'put', 'set', 'clear', 'update', 'append', 'add', 'remove', 'discard', 'pop', 'cancel', 'done', 'release',
    'acquire', 'wait', 'join', 'shutdown', 'locked', 'items', 'values', 'keys', 'extend', 'sort', 'get_nowait',
    'put_nowait', 'reset', 'copy', 'format', 'close', 'write', 'read', 'result', 'exception', 'cancelled', 'is_set',
    'log_tree',
}  # fmt: skip
